"""C06  Attack tables are exact for every square and every occupancy  (DESIGN 3, C06)."""
import os
import sys
import re
import time

from . import engine, mir
from . import common as C
from .mir import expr_str, walk, callee_is, const_int, op_place, strip_generics, fields_of

sys.path.insert(0, os.path.dirname(os.path.dirname(os.path.abspath(__file__))))
from oracles import geometry as G  # noqa: E402

PROP = "C06"
M64 = (1 << 64) - 1
PIECES = {
    "rook": ("board::piece::rook::Rook", "<board::piece::rook::Rook as board::piece::Magic>", G.ROOK_DIRS),
    "bishop": ("board::piece::bishop::Bishop", "<board::piece::bishop::Bishop as board::piece::Magic>", G.BISHOP_DIRS),
}
DIRECTION_ADT = "board::square::Direction"


def le_words(hexbytes, width):
    b = bytes.fromhex(hexbytes)
    return [int.from_bytes(b[i:i + width], "little") for i in range(0, len(b), width)]


def ceval(e):
    """Constant-fold a symbolic expression made of integer constants, |, &, !, checked +, casts."""
    if not isinstance(e, tuple):
        return None
    k = e[0]
    if k == "const" and isinstance(e[1], int):
        return e[1] & M64
    if k == "cast":
        return ceval(e[1])
    if k == "un" and e[1] == "Not":
        v = ceval(e[2])
        return None if v is None else (~v) & M64
    if k == "field" and e[-1] == "0" and isinstance(e[1], tuple) and e[1][0] == "bin":
        return ceval(e[1])
    if k == "bin":
        a, b = ceval(e[2]), ceval(e[3])
        if a is None or b is None:
            return None
        op = e[1]
        if op.startswith("Add"):
            return (a + b) & M64
        if op == "BitOr":
            return a | b
        if op == "BitAnd":
            return a & b
        if op.startswith("Sub"):
            return (a - b) & M64
        if op.startswith("Shl"):
            return (a << b) & M64
    if k == "call" and isinstance(e[1], str) and (e[1].endswith("::into") or e[1].endswith("::from") or e[1].endswith("Bitboard::new")) and len(e[2]) == 1:
        return ceval(e[2][0])
    return None


# ---------------------------------------------------------------------------------- C06.magic

def rule_magic(ctx):
    """Constants validation: with MAGICS, INDEX_BITS, ATTACKS_TABLE_SIZE read from the type-checked program and
    masks / attack sets from the oracle: index width covers the mask, index fits the table row, the fill
    loop variable is wide enough, and equal index implies equal attack set over ALL subsets of the mask."""
    ix = ctx.ix
    total = 0
    t0 = time.time()
    for piece, (ty, impl, dirs) in PIECES.items():
        magics = le_words(ix.const(ty + "::MAGICS")["bytes"], 8)
        bits = le_words(ix.const(ty + "::INDEX_BITS")["bytes"], 1)
        size = ix.const("board::piece::%s::ATTACKS_TABLE_SIZE" % piece).get("int")
        ctx.check(len(magics) == 64 and len(bits) == 64 and isinstance(size, int), "%s:tables-present" % piece, "%s: 64 magics, 64 index widths, row size %s" % (piece, size),
                  bad_what="%s: constants unreadable (%d magics, %d widths, size %s)" % (piece, len(magics), len(bits), size))
        if len(magics) != 64 or len(bits) != 64:
            continue
        bad_sq = []
        for sq in range(64):
            mask = G.relevant_mask(sq, dirs)
            n = bits[sq]
            why = None
            if n < G.popcount(mask):
                why = "INDEX_BITS %d < %d relevant squares: the fill loop 0..1<<%d does not enumerate every blocker subset, entries stay zero" % (n, G.popcount(mask), n)
            elif (1 << n) > size:
                why = "1 << INDEX_BITS = %d exceeds the row length %d: the index runs past the table row" % (1 << n, size)
            elif n > 15:
                why = "INDEX_BITS %d does not fit the u16 fill-loop variable" % n
            else:
                seen = {}
                shift = 64 - n
                mg = magics[sq]
                for sub in G.subsets(mask):
                    total += 1
                    idx = ((sub * mg) & M64) >> shift
                    att = G.slider_attacks(sq, sub, dirs)
                    prev = seen.get(idx)
                    if prev is None:
                        seen[idx] = att
                    elif prev != att:
                        why = "magic 0x%x maps two blocker sets with different attack sets to index %d (destructive collision): one of them reads the other's attacks" % (mg, idx)
                        break
            key = "%s:%s" % (piece, G.square_name(sq))
            if why:
                bad_sq.append(sq)
                ctx.bad(key, "%s on %s: %s" % (piece, G.square_name(sq), why), "src/board/piece/%s.rs" % piece)
            else:
                ctx.ok(key, "%s on %s: %d bits >= %d relevant squares, fits row of %d, all %d subsets collision-free" % (piece, G.square_name(sq), n, G.popcount(mask), size, 1 << G.popcount(mask)))
    ctx.check(total >= 100000, "subsets-enumerated", "%d blocker subsets enumerated exhaustively in %.2fs" % (total, time.time() - t0), bad_what="only %d subsets enumerated" % total)


# --------------------------------------------------------------------------------- C06.scheme

def _comm(op, a, b):
    """Operands of a commutative operator in a fixed order, so that `m & b` and `b & m` compare equal."""
    x, y = sorted((a, b), key=repr)
    return (op, x, y)


def _canon(t):
    if isinstance(t, tuple) and t and t[0] in ("mul", "and") and len(t) == 3:
        return _comm(t[0], _canon(t[1]), _canon(t[2]))
    if isinstance(t, tuple):
        return tuple(_canon(x) for x in t)
    return t


def norm_index(e, piece_ty):
    """Normalise an index expression of the magic scheme to a comparable shape."""
    e = mir.strip_copies(e)
    if e[0] == "cast":
        return norm_index(e[1], piece_ty)
    if e[0] == "call":
        c = e[1]
        if c.endswith("::into") or c.endswith("::from") or c.endswith("Bitboard as std::ops::Deref>::deref"):
            return norm_index(e[2][0], piece_ty)
        if c.endswith("Shr<usize>>::shr") or c.endswith("Shr<u32>>::shr"):
            return ("shr", norm_index(e[2][0], piece_ty), norm_index(e[2][1], piece_ty))
        if c.endswith("Mul<u64>>::mul") or c.endswith("wrapping_mul") or c.endswith("ops::Mul>::mul"):
            return _comm("mul", norm_index(e[2][0], piece_ty), norm_index(e[2][1], piece_ty))
        if c.endswith("ops::BitAnd>::bitand") or c.endswith("BitAnd<u64>>::bitand"):
            return _comm("and", norm_index(e[2][0], piece_ty), norm_index(e[2][1], piece_ty))
        if c.endswith("Magic::get_blockers_from_index"):
            return ("subset-of", norm_index(e[2][1], piece_ty))
        if c.endswith("Square::u8") or c.endswith("From<board::square::Square> for u8>::from"):
            return ("sq",)
        return ("call", mir.short(c)) + tuple(norm_index(a, piece_ty) for a in e[2])
    if e[0] == "bin":
        if e[1] in ("Shr", "ShrUnchecked"):
            return ("shr", norm_index(e[2], piece_ty), norm_index(e[3], piece_ty))
        if e[1].startswith("Sub"):
            return ("sub", norm_index(e[2], piece_ty), norm_index(e[3], piece_ty))
        return (e[1], norm_index(e[2], piece_ty), norm_index(e[3], piece_ty))
    if e[0] == "field" and e[-1] == "0" and isinstance(e[1], tuple) and e[1][0] == "bin":
        return norm_index(e[1], piece_ty)
    if e[0] == "index":
        base = mir.strip_copies(e[1])
        i = norm_index(e[2], piece_ty)
        if base[0] == "item":
            return ("tbl", base[1].split("::")[-1], i)
        st = [x for x in walk(base) if isinstance(x, tuple) and x[0] == "static"]
        if st:
            return ("tbl", st[0][1].split("::")[-1], i)
        return ("index", norm_index(base, piece_ty), i)
    if e[0] == "const":
        return ("c", e[1])
    if e[0] in ("arg", "var"):
        return ("sq",) if e[1] in ("square", "sq") else ("v", e[1])
    if e[0] == "field" and isinstance(e[1], tuple) and e[1][0] == "as":
        return ("sq",)  # loop variable `square`
    return (e[0],)


def rule_scheme(ctx):
    """Reader (get_attacks) and writer (init_attacks) compute the same index
    (X * MAGICS[sq]) >> (64 - INDEX_BITS[sq]) with X drawn from MASKS[sq]; table shape [sq][key]."""
    ix = ctx.ix
    for piece, (ty, impl, dirs) in PIECES.items():
        rd = ctx.body(impl + "::get_attacks")
        wr = ctx.body(ty + "::init_attacks")
        rs, ws = ctx.sym(rd), ctx.sym(wr)
        # reader: return value = ATTACKS[sq][key]
        r = rs.local(0)
        rkey = None
        for x in walk(r):
            if isinstance(x, tuple) and x[0] == "call" and x[1].endswith("Index<I>>::index") and len(x[2]) == 2:
                rkey = norm_index(x[2][1], ty)
                rtab = [y for y in walk(x[2][0]) if isinstance(y, tuple) and y[0] == "static"]
                rrow = [y for y in walk(x[2][0]) if isinstance(y, tuple) and y[0] == "index"]
        want = _canon(("shr", ("mul", ("and", ("v", "blockers"), ("tbl", "MASKS", ("sq",))), ("tbl", "MAGICS", ("sq",))), ("sub", ("c", 64), ("tbl", "INDEX_BITS", ("sq",)))))
        ctx.check(rkey == want, "%s:reader-index" % piece, "get_attacks reads ATTACKS[sq][((blockers & MASKS[sq]) * MAGICS[sq]) >> (64 - INDEX_BITS[sq])]", rd.where(0),
                  bad_what="%s::get_attacks computes its key as %s" % (piece, rkey))
        ok_tab = rkey is not None and rtab and rtab[0][1] == "board::piece::%s::ATTACKS" % piece and rrow and norm_index(rrow[0][2], ty) == ("sq",)
        ctx.check(ok_tab, "%s:reader-table" % piece, "get_attacks indexes this piece's own ATTACKS[sq]", rd.where(0), bad_what="get_attacks does not read board::piece::%s::ATTACKS[sq]" % piece)
        # writer: vector[second_index] = get_attacks_slow(Square::from(square), blockers)
        wkey = wval = None
        for bi, i, s in wr.stmts():
            lhs = s["lhs"]
            if lhs["p"] == ["*"]:
                sd = wr.single_def(lhs["l"])
                if sd and sd[2].get("k") == "call" and callee_is(sd[2]["t"], "*IndexMut<I>>::index_mut"):
                    t = sd[2]["t"]
                    wkey = norm_index(ws.operand(t["args"][1]), ty)
                    wval = ws.rvalue(s["rv"])
        wwant = _canon(("shr", ("mul", ("subset-of", ("tbl", "MASKS", ("sq",))), ("tbl", "MAGICS", ("sq",))), ("sub", ("c", 64), ("tbl", "INDEX_BITS", ("sq",)))))
        ctx.check(wkey == wwant, "%s:writer-index" % piece, "init_attacks writes row[(subset(MASKS[sq]) * MAGICS[sq]) >> (64 - INDEX_BITS[sq])]", wr.where(0),
                  bad_what="%s::init_attacks computes its index as %s (reader: %s)" % (piece, wkey, rkey))
        okv = wval is not None and wval[0] == "call" and wval[1] == impl + "::get_attacks_slow" and norm_index(wval[2][0], ty) in (("sq",), ("call", "From<u8>>::from", ("sq",))) and \
            any(isinstance(x, tuple) and x[0] == "call" and x[1].endswith("get_blockers_from_index") for x in walk(wval[2][1]))
        ctx.check(okv, "%s:writer-value" % piece, "the stored value is get_attacks_slow(square, the same blocker subset)", wr.where(0), bad_what="init_attacks stores `%s`" % (expr_str(wval)[:120] if wval else None))
        # same constants: the magic / width tables of this piece (not the other piece's)
        items = {x[1] for x in walk(("t", r)) if isinstance(x, tuple) and x[0] == "item"}
        ctx.check(items == {ty + "::MAGICS", ty + "::INDEX_BITS"}, "%s:reader-constants" % piece, "get_attacks uses %s::MAGICS and ::INDEX_BITS" % ty.split("::")[-1], rd.where(0), bad_what="get_attacks uses %s" % sorted(items))
        # row length and fill loop
        elems = [t for bi, t in wr.calls() if callee_is(t, "std::vec::from_elem")]
        size = ix.const("board::piece::%s::ATTACKS_TABLE_SIZE" % piece).get("int")
        ctx.check(len(elems) == 1 and const_int(elems[0]["args"][1]) == size, "%s:row-length" % piece, "each row is vec![0; ATTACKS_TABLE_SIZE = %s]" % size, wr.where(0), bad_what="rows are not allocated with ATTACKS_TABLE_SIZE elements")
        loop_ok = False
        for bi, i, s in wr.stmts():
            rv = s["rv"]
            if rv.get("k") == "agg" and rv.get("adt", "").endswith("ops::Range") and const_int(rv["ops"][0]) == 0:
                hi = norm_index(ws.operand(rv["ops"][1]), ty)
                if hi == ("Shl", ("c", 1), ("tbl", "INDEX_BITS", ("sq",))):
                    loop_ok = True
        ctx.check(loop_ok, "%s:fill-loop" % piece, "the fill loop runs idx over 0 .. 1 << INDEX_BITS[sq]", wr.where(0), bad_what="the fill loop bound is not 1 << INDEX_BITS[sq]")
    # Bitboard operators used by the reader mean what the scheme needs
    mul = ctx.body("<board::bitboard::Bitboard as std::ops::Mul<u64>>::mul")
    ctx.check(any(callee_is(t, "*::wrapping_mul") for _b, t in mul.calls()), "bitboard:mul-wraps", "Bitboard * u64 is a wrapping multiplication (as in init_attacks)", mul.where(0), bad_what="Bitboard * u64 is not wrapping_mul: reader and writer disagree on overflow")


# ------------------------------------------------------------------------------ C06.mask-edges

def dir_name(ix, v):
    adt = ix.adt(DIRECTION_ADT)
    for i, var in enumerate(adt["variants"]):
        d = int(var["discr"]) if var["discr"] is not None else i
        if d == v:
            return var["name"]
    return None


def or_terms(e):
    """Flatten a tree of Bitboard | Bitboard."""
    e = mir.strip_copies(e)
    if e[0] == "call" and (e[1].endswith("ops::BitOr>::bitor") or e[1].endswith("BitOr<u64>>::bitor")):
        return or_terms(e[2][0]) + or_terms(e[2][1])
    if e[0] == "bin" and e[1] == "BitOr":
        return or_terms(e[2]) + or_terms(e[3])
    return [e]


def and_split(e):
    """(core expression, AND-ed constant mask)"""
    e = mir.strip_copies(e)
    mask = M64
    while e[0] == "call" and (e[1].endswith("BitAnd<u64>>::bitand") or e[1].endswith("ops::BitAnd>::bitand")):
        c = ceval(e[2][1])
        if c is None:
            break
        mask &= c
        e = mir.strip_copies(e[2][0])
    return e, mask


def ray_ref(ix, e):
    """rays[<i>][<Direction const>] -> direction name"""
    e = mir.strip_copies(e)
    if e[0] == "index" and e[1][0] == "index":
        d = ceval(e[2])
        if d is not None:
            return dir_name(ix, d), e[1][2]
    return None, None


def rule_mask_edges(ctx):
    ix = ctx.ix
    EDGE = {"North": G.rank_mask("Eighth"), "East": G.file_mask("H"), "South": G.rank_mask("First"), "West": G.file_mask("A")}
    b = ctx.body(PIECES["rook"][1] + "::init_masks")
    sym = ctx.sym(b)
    mask_expr = None
    for bi, i, s in b.stmts():
        if s["lhs"]["p"] and isinstance(s["lhs"]["p"][-1], dict) and "i" in s["lhs"]["p"][-1]:
            mask_expr = sym.rvalue(s["rv"])
    rows = {}
    for t in or_terms(mask_expr) if mask_expr else []:
        core, m = and_split(t)
        d, _i = ray_ref(ix, core)
        rows[d] = m
    for d in G.ROOK_DIRS:
        ctx.check(rows.get(d) == (~EDGE[d]) & M64, "rook:mask:%s" % d, "rook mask: %s ray without its last square (edge mask 0x%016x removed)" % (d, EDGE[d]), b.where(0),
                  bad_what="rook relevant mask: the %s ray is AND-ed with 0x%016x, expected !0x%016x (the far edge must be dropped and nothing else)" % (d, rows.get(d, 0), EDGE[d]))
    ctx.check(set(rows) == set(G.ROOK_DIRS), "rook:mask:four-rays", "exactly the four orthogonal rays", b.where(0), bad_what="rook mask built from %s" % sorted(map(str, rows)))
    bb = ctx.body(PIECES["bishop"][1] + "::init_masks")
    bsym = ctx.sym(bb)
    mexpr = None
    for bi, i, s in bb.stmts():
        if s["lhs"]["p"] and isinstance(s["lhs"]["p"][-1], dict) and "i" in s["lhs"]["p"][-1]:
            mexpr = bsym.rvalue(s["rv"])
    ok = mexpr is not None and mexpr[0] == "call" and mexpr[1].endswith("Bitboard::trim_edges")
    dirs = set()
    if ok:
        for t in or_terms(mexpr[2][0]):
            d, _i = ray_ref(ix, t)
            dirs.add(d)
    ctx.check(ok and dirs == set(G.BISHOP_DIRS), "bishop:mask:four-diagonals-trimmed", "bishop mask: the four diagonal rays, then trim_edges()", bb.where(0), bad_what="bishop mask is %s over %s" % ("trim_edges" if ok else "not trim_edges", sorted(map(str, dirs))))
    tb = ctx.body("board::bitboard::Bitboard::trim_edges")
    tsym = ctx.sym(tb)
    core, m = and_split(tsym.local(0))
    want = M64 & ~(G.rank_mask("First") | G.rank_mask("Eighth") | G.file_mask("A") | G.file_mask("H"))
    ctx.check(m == want and core == ("arg", "self"), "trim_edges", "trim_edges removes exactly ranks 1, 8 and files A, H", tb.where(0), bad_what="trim_edges ANDs with 0x%016x (expected 0x%016x)" % (m, want))
    # File / Rank discriminants
    for enum, fn, names in (("board::bitboard::File", G.file_mask, "ABCDEFGH"), ("board::bitboard::Rank", G.rank_mask, ["First", "Second", "Third", "Fourth", "Fifth", "Sixth", "Seventh", "Eighth"])):
        adt = ix.adt(enum)
        for v in adt["variants"]:
            ctx.check(int(v["discr"]) & M64 == fn(v["name"]), "%s::%s" % (enum.split("::")[-1], v["name"]), "%s::%s = 0x%016x" % (enum.split("::")[-1], v["name"], fn(v["name"])),
                      bad_what="%s::%s is 0x%016x, expected 0x%016x" % (enum, v["name"], int(v["discr"]) & M64, fn(v["name"])))


# -------------------------------------------------------------------------------- C06.ray-walk

FORWARD = {"North", "East", "NorthEast", "NorthWest"}  # index-increasing directions


def rule_ray_walk(ctx):
    ix = ctx.ix
    for piece, (ty, impl, dirs) in PIECES.items():
        b = ctx.body(impl + "::get_attacks_slow")
        sym = ctx.sym(b)
        seen = set()
        for bi, t in b.calls():
            if not callee_is(t, "*BitAndAssign>::bitand_assign", "*BitAndAssign<u64>>::bitand_assign"):
                continue
            rhs = sym.operand(t["args"][1])
            # !(rays[blocked_idx][D2])
            inner = mir.strip_copies(rhs)
            if inner[0] == "call" and inner[1].endswith("ops::Not>::not"):
                inner = mir.strip_copies(inner[2][0])
            d2, idx = ray_ref(ix, inner)
            scan = None
            d1 = None
            for x in walk(idx) if idx else []:
                if isinstance(x, tuple) and x[0] == "call" and x[1].endswith("Bitboard::bitscan_forward"):
                    scan = "forward"
                    src = x[2][0]
                if isinstance(x, tuple) and x[0] == "call" and x[1].endswith("Bitboard::bitscan_reverse"):
                    scan = "reverse"
                    src = x[2][0]
            if scan:
                parts = mir.strip_copies(src)
                if parts[0] == "call" and parts[1].endswith("BitAnd>::bitand"):
                    d1, _ = ray_ref(ix, parts[2][0])
                    blk_ok = parts[2][1] == ("arg", "blockers")
            # guard: the same (ray & blockers) is non-empty
            cons = C.constraints_for(ix, b, sym, bi)
            g = [c for c in cons if c[3][0] == "call" and c[3][1].endswith("Bitboard::is_empty") and False in c[1]]
            gd = None
            if g:
                gp = mir.strip_copies(g[-1][3][2][0])
                if gp[0] == "call" and gp[1].endswith("BitAnd>::bitand"):
                    gd, _ = ray_ref(ix, gp[2][0])
            want_scan = "forward" if d2 in FORWARD else "reverse"
            ok = d2 in dirs and d1 == d2 and gd == d2 and scan == want_scan
            seen.add(d2)
            ctx.check(ok, "%s:walk:%s" % (piece, d2), "%s ray: first blocker found by bitscan_%s of (ray & blockers), squares beyond it (same direction) removed" % (d2, scan), b.where(bi),
                      bad_what="%s ray-walk towards %s: guard on %s, scans %s of the %s ray and clears the %s ray (expected all %s with a %s scan)" % (piece, d2, gd, scan, d1, d2, d2, want_scan))
        ctx.check(seen == set(dirs), "%s:walk:all-directions" % piece, "all four directions are blocked individually", b.where(0), bad_what="%s get_attacks_slow handles %s" % (piece, sorted(map(str, seen))))
        # initial value: union of the four rays of this piece from `square`
        init = None
        for l in range(len(b.locals)):
            if b.local_name(l) == "attacks":
                for (db, di, rv) in b.defs().get(l, []):
                    if rv.get("k") != "partial":
                        init = sym.rvalue(rv) if rv.get("k") != "call" else ("call", strip_generics(mir.callee_name(rv["t"])), tuple(sym.operand(a) for a in rv["t"]["args"]))
                        break
        ds = {ray_ref(ix, t)[0] for t in or_terms(init)} if init else set()
        ctx.check(ds == set(dirs), "%s:walk:starts-from-all-rays" % piece, "attacks starts as the union of the four rays from the square", b.where(0), bad_what="attacks starts from %s" % sorted(map(str, ds)))
    # the scans
    for fn, intrs in (("bitscan_forward_helper", ("trailing_zeros",)), ("bitscan_reverse_helper", ("leading_zeros", "ilog2"))):
        hb = ctx.body("board::bitboard::Bitboard::" + fn)
        ctx.check(any(callee_is(t, *["*::" + i for i in intrs]) for _b, t in hb.calls()), "bitboard:%s" % fn, "%s uses %s" % (fn, " / ".join(intrs)), hb.where(0), bad_what="%s does not use %s" % (fn, " / ".join(intrs)))
    rv = ctx.body("board::bitboard::Bitboard::bitscan_reverse_helper")
    rsym = ctx.sym(rv)
    r = rsym.local(0)
    word = lambda a: a[0] == "field" and a[-1] == "0" and mir.strip_refs(a[1]) == ("arg", "self")  # noqa: E731
    ok = (r[0] == "bin" and r[1].startswith("Sub") and r[2] == ("const", 63, "u32") and r[3][0] == "call" and r[3][1].endswith("leading_zeros") and word(r[3][2][0])) or \
         (r[0] == "call" and r[1].endswith("<impl u64>::ilog2") and word(r[2][0]))  # ilog2(x) = 63 - lz(x) for x != 0
    ctx.check(ok, "bitboard:bitscan_reverse-is-63-minus-lz", "bitscan_reverse = 63 - leading_zeros (index of the highest set bit)", rv.where(0), bad_what="bitscan_reverse computes `%s`" % expr_str(r))
    for fn in ("bitscan_forward", "bitscan_reverse"):
        wb = ctx.body("board::bitboard::Bitboard::" + fn)
        w = ctx.sym(wb).local(0)
        ctx.check(w == ("call", "board::bitboard::Bitboard::%s_helper" % fn, (("arg", "self"),)), "bitboard:%s-wrapper" % fn, "%s forwards to its helper" % fn, wb.where(0), bad_what="%s is `%s`" % (fn, expr_str(w)))


# --------------------------------------------------------------------------------- C06.leapers

def shift_terms(e, origin_test):
    """Normalise an initializer built from origin<<c, origin>>c, |, & !const into [(shift, keep mask)]."""
    e = mir.strip_copies(e)
    if origin_test(e):
        return [(0, M64)]
    if e[0] == "call":
        c = e[1]
        if c.endswith("ops::BitOr>::bitor") or c.endswith("BitOr<u64>>::bitor"):
            a, b = shift_terms(e[2][0], origin_test), shift_terms(e[2][1], origin_test)
            return None if a is None or b is None else a + b
        if c.endswith("BitAnd<u64>>::bitand") or c.endswith("ops::BitAnd>::bitand"):
            m = ceval(e[2][1])
            a = shift_terms(e[2][0], origin_test)
            if m is None or a is None:
                return None
            return [(s, k & m) for s, k in a]
        if "ops::Shl<" in c and c.endswith("::shl"):
            n = ceval(e[2][1])
            a = shift_terms(e[2][0], origin_test)
            if n is None or a is None or any(k != M64 for _s, k in a):
                return None
            return [(s + n, k) for s, k in a]
        if "ops::Shr<" in c and c.endswith("::shr"):
            n = ceval(e[2][1])
            a = shift_terms(e[2][0], origin_test)
            if n is None or a is None or any(k != M64 for _s, k in a):
                return None
            return [(s - n, k) for s, k in a]
    return None


def decode_shift(s):
    df = ((s + 2) % 8) - 2
    if df > 2:
        return None
    dr = (s - df) // 8
    return dr, df


def required_keep(df):
    excl = 0
    if df > 0:
        for f in range(df):
            excl |= G.FILE_A << f
    elif df < 0:
        for f in range(8 + df, 8):
            excl |= G.FILE_A << f
    return (~excl) & M64


def fold_leaper(ix, e):
    """{square: attack set} by folding the stored expression for idx = 0..63 (the loop variable however it is spelt), or
    the reason it cannot be folded."""
    out = {}
    for sq in range(64):
        env = {}
        for x in walk(e):
            if isinstance(x, tuple) and x[0] == "field" and x[-2:] == ("0", "0") and x[1][0] == "as" and "next" in expr_str(x[1]):
                env[expr_str(x)] = sq
            if isinstance(x, tuple) and x[0] == "var" and x[1] in ("idx", "square", "sq", "i", "index"):
                env[expr_str(x)] = sq
        try:
            v = fold_tree(ix, e, env)
        except Undef as u:
            return str(u)
        if not isinstance(v, int):
            return "not a number"
        out[sq] = v
    return out


def check_leaper(ctx, label, terms, deltas, where, folded=None):
    if isinstance(folded, dict):
        bad = [(G.square_name(sq), "0x%016x" % v, "0x%016x" % G.leaper(sq, deltas)) for sq, v in sorted(folded.items()) if v != G.leaper(sq, deltas)]
        ctx.check(not bad, "%s:table" % label, "%s attack set, folded from the initialiser expression, is exact for all 64 squares" % label, where,
                  bad_what="%s attack set is wrong for %d square(s), e.g. %s (got, expected)" % (label, len(bad), bad[:3]))
        if not bad:
            return  # exact for every square: how the expression is spelt does not matter
    if terms is None:
        ctx.bad("%s:unreadable" % label, "%s attack initializer is not built from shifts of the origin bit, |, and & !<file constants> (cannot decide)" % label, where)
        return
    got = {}
    for s, keep in terms:
        d = decode_shift(s)
        key = "%s:shift%+d" % (label, s)
        if d is None:
            ctx.bad(key, "%s: shift %+d is not a leaper step" % (label, s), where)
            continue
        got[d] = keep
        need = required_keep(d[1])
        if keep == need:
            ctx.ok(key, "%s: shift %+d = step (rank %+d, file %+d) with exactly the wrapping files masked out" % (label, s, d[0], d[1]), where)
        else:
            lost = need & ~keep & M64
            extra = keep & ~need & M64
            ctx.bad(key, "%s: shift %+d = step (rank %+d, file %+d) keeps mask 0x%016x, required 0x%016x: %s" % (label, s, d[0], d[1], keep, need,
                    "a piece near the edge wraps around to the other side of the board" if extra else "legitimate target squares are masked out"), where)
    ctx.check(set(got) == set(deltas), "%s:steps" % label, "%s steps are %s" % (label, sorted(got)), where, bad_what="%s has steps %s, the rules give %s" % (label, sorted(got), sorted(deltas)))


def reader_index_is_square(ix, r):
    """The (last) index of a table read `T[..][IDX]` folds to rank*8+file of the parameter `square` for all 64 squares."""
    idxs = [x for x in walk(r) if isinstance(x, tuple) and x[0] == "call" and x[1].endswith("::index") and len(x[2]) == 2 and "square" in expr_str(x[2][1])]
    idxs += [x for x in walk(r) if isinstance(x, tuple) and x[0] == "index" and "square" in expr_str(x[2])]
    if not idxs:
        return False
    e = idxs[0][2][1] if idxs[0][0] == "call" else idxs[0][2]
    for sq in range(64):
        try:
            v = fold_tree(ix, e, {"square": {"rank": sq // 8, "file": sq % 8}, "square.rank": sq // 8, "square.file": sq % 8})
        except Undef:
            return False
        if v != sq:
            return False
    return True


def _every_square_written(ctx, ix, b, sym, name, blocks, deltas=None):
    """The initialiser writes the entry of every square that has attacks: the store sits in the loop over the squares, and
    where a condition inside the loop decides whether it runs, the squares it skips (they keep the empty entry) must be
    squares whose attack set is empty.  The condition is folded for the 64 values of the loop variable."""
    ok = len(blocks) == 1 and b.in_loop(blocks[0])
    extra = []
    if ok:
        for c in C.constraints_for(ix, b, sym, blocks[0]):
            if c[3][0] == "discr" and "::next" in c[0] and c[1] == frozenset(["Some"]):
                continue
            if not b.in_loop(c[2]):
                continue    # decided once, before the loop (the table is not initialised yet)
            extra.append(c)
    skipped = None
    if ok and extra and deltas is not None:
        # the loop variable: the payload of the loop's next()
        key = None
        for c in extra:
            for x in walk(c[3]):
                if isinstance(x, tuple) and x[0] == "field" and x[-1] == "0" and isinstance(x[1], tuple) and x[1][0] == "as" and x[1][2] == "Some" and "::next" in expr_str(x[1][1]):
                    key = expr_str(x)
        if key is not None:
            skipped = set()
            for sq in range(64):
                for c in extra:
                    try:
                        v = fold_tree(ix, c[3], {key: sq})
                    except Undef:
                        skipped = None
                        break
                    if not isinstance(v, int) or (bool(v) not in c[1] and v not in c[1]):
                        skipped.add(sq)
                if skipped is None:
                    break
    if skipped is not None:
        harmful = sorted(G.square_name(sq) for sq in skipped if G.leaper(sq, deltas) != 0)
        ctx.check(not harmful, "%s:entry-for-every-square" % name, "%s: the entries the in-loop condition skips (%d squares) are squares without attacks" % (name, len(skipped)),
                  b.where(blocks[0]), bad_what="%s: the attack entry is not written for %s, which keep the empty entry although the piece attacks from there" % (name, harmful[:8]))
        return
    ctx.check(ok and not extra, "%s:entry-for-every-square" % name, "%s: the table entry of every square is written (the store is unconditional in the loop over the squares)" % name,
              b.where(blocks[0] if blocks else 0),
              bad_what="%s: the attack entry is written %s: squares for which the condition fails keep the empty entry" % (name, ("only when %s" % [(c[0][:60], sorted(map(str, c[1]))) for c in extra]) if extra else "at %d places / outside the loop" % len(blocks)))


def rule_leapers(ctx):
    ix = ctx.ix

    def origin_test_for(b, sym):
        def t(e):
            # Bitboard::new(1 << idx)
            return e[0] == "call" and e[1].endswith("Bitboard::new") and e[2][0][0] == "bin" and e[2][0][1].startswith("Shl") and e[2][0][2][0] == "const" and e[2][0][2][1] == 1
        return t
    for name, deltas in (("knight", G.KNIGHT_DELTAS), ("king", G.KING_DELTAS)):
        key = "<board::piece::%s::%s as board::piece::Precomputed>::init_attacks" % (name, name.capitalize())
        b = ctx.body(key)
        sym = ctx.sym(b)
        init = None
        init_blocks = []
        for bi, i, s in b.stmts():
            if s["lhs"]["p"] == ["*"]:
                init = sym.rvalue(s["rv"])
                init_blocks.append(bi)
        _every_square_written(ctx, ix, b, sym, name, init_blocks, deltas)
        terms = shift_terms(init, origin_test_for(b, sym)) if init else None
        check_leaper(ctx, name, terms, deltas, b.where(0), fold_leaper(ix, init) if init else None)
        rd = ctx.body("<board::piece::%s::%s as board::piece::Precomputed>::get_attacks" % (name, name.capitalize()))
        r = ctx.sym(rd).local(0)
        st = [x[1] for x in walk(r) if isinstance(x, tuple) and x[0] == "static"]
        ctx.check(st == ["board::piece::%s::ATTACKS" % name] and reader_index_is_square(ix, r), "%s:reader" % name, "%s::get_attacks reads ATTACKS[index of the square] (folded for all 64 squares)" % name, rd.where(0),
                  bad_what="%s::get_attacks returns `%s`" % (name, expr_str(r)[:100]))
    pb = ctx.body("<board::piece::pawn::Pawn as board::piece::PrecomputedColor>::init_attacks")
    psym = ctx.sym(pb)
    rows = {}
    row_blocks = {}
    for bi, i, s in pb.stmts():
        p = s["lhs"]["p"]
        if len(p) == 2 and all(isinstance(x, dict) and "i" in x for x in p):
            colour_idx = ceval(psym.local(p[0]["i"]))
            rows[colour_idx] = psym.rvalue(s["rv"])
            row_blocks.setdefault(colour_idx, []).append(bi)
    for ci_, blocks_ in sorted(row_blocks.items(), key=str):
        _every_square_written(ctx, ix, pb, psym, "pawn-%s" % {0: "White", 1: "Black"}.get(ci_, ci_), blocks_, G.PAWN_DELTAS.get({0: "White", 1: "Black"}.get(ci_)))
    col = {0: "White", 1: "Black"}
    cadt = ix.adt("board::piece::Color")
    disc = {v["name"]: int(v["discr"]) for v in cadt["variants"]}
    ctx.check(disc == {"White": 0, "Black": 1}, "Color-discriminants", "Color::White = 0, Color::Black = 1 (row index of the pawn table, index of the Zobrist colour dimension)", bad_what="Color discriminants are %s" % disc)
    for ci, cname in col.items():
        terms = shift_terms(rows.get(ci), origin_test_for(pb, psym)) if rows.get(ci) else None
        check_leaper(ctx, "pawn-%s" % cname, terms, G.PAWN_DELTAS[cname], pb.where(0), fold_leaper(ix, rows.get(ci)) if rows.get(ci) else None)
    prd = ctx.body("<board::piece::pawn::Pawn as board::piece::PrecomputedColor>::get_attacks")
    r = ctx.sym(prd).local(0)
    ctx.check("color" in expr_str(r) and reader_index_is_square(ix, r), "pawn:reader", "Pawn::get_attacks reads ATTACKS[color][index of the square]", prd.where(0), bad_what="Pawn::get_attacks returns `%s`" % expr_str(r)[:100])


def rule_queen(ctx):
    ix = ctx.ix
    b = ctx.body("board::piece::queen::Queen::get_attacks")
    r = ctx.sym(b).local(0)
    parts = or_terms(r)
    names = sorted(p[1] for p in parts if p[0] == "call")
    # each slider through its wrapper, or through the magic lookup the wrapper forwards to
    via = {}
    for piece, (ty, impl, dirs) in PIECES.items():
        for nm in names:
            if nm in (ty + "::get_attacks_wrapper", impl + "::get_attacks"):
                via[piece] = nm
    ok = len(names) == 2 and len(via) == 2 and sorted(via.values()) == names and all(p[2] == (("arg", "square"), ("arg", "blockers")) for p in parts)
    ctx.check(ok, "queen:rook-or-bishop", "Queen::get_attacks = Rook attacks | Bishop attacks on the same (square, blockers)", b.where(0), bad_what="Queen::get_attacks is `%s`" % expr_str(r)[:160])
    for piece, (ty, impl, dirs) in PIECES.items():
        if (ty + "::get_attacks_wrapper") not in ix.bodies and via.get(piece) == impl + "::get_attacks":
            ctx.ok("%s:wrapper" % piece, "no wrapper: the queen calls the magic lookup itself", b.where(0))
            continue
        wb = ctx.body(ty + "::get_attacks_wrapper")
        r = ctx.sym(wb).local(0)
        ctx.check(r == ("call", impl + "::get_attacks", (("arg", "square"), ("arg", "blockers"))), "%s:wrapper" % piece, "get_attacks_wrapper forwards to the magic lookup", wb.where(0), bad_what="wrapper is `%s`" % expr_str(r))
    # Kind::get_attacks dispatch
    kb = ctx.body("board::piece::Kind::get_attacks")
    ksym = ctx.sym(kb)
    table = {}
    for bi, t in kb.calls():
        if mir.is_local(t["dest"]) and t["dest"]["l"] == 0:
            cons = C.constraints_for(ix, kb, ksym, bi)
            for c in cons:
                if c[0].startswith("discr(") and len(c[1]) == 1:
                    table[next(iter(c[1]))] = strip_generics(t.get("callee") or "")
    want = {"Pawn": "Pawn as board::piece::PrecomputedColor>::get_attacks", "King": "King as board::piece::Precomputed>::get_attacks", "Knight": "Knight as board::piece::Precomputed>::get_attacks",
            "Queen": "queen::Queen::get_attacks", "Rook": "Rook as board::piece::Magic>::get_attacks", "Bishop": "Bishop as board::piece::Magic>::get_attacks"}
    for k, sfx in want.items():
        ctx.check(table.get(k, "").endswith(sfx), "Kind::get_attacks:%s" % k, "Kind::%s dispatches to its own attack function" % k, kb.where(0), bad_what="Kind::%s attacks come from %s" % (k, table.get(k)))
    # occupancy passed to the sliders is all_pieces
    for bi, t in kb.calls():
        if mir.is_local(t["dest"]) and t["dest"]["l"] == 0 and len(t["args"]) == 2 and "Color" not in (op_place(t["args"][1]) or {}).get("ty", "Color"):
            e = ksym.operand(t["args"][1])
            ctx.check(e[0] == "field" and e[-2:] == ("bitboards", "all_pieces"), c_dedup(ctx, "Kind::get_attacks:occupancy"), "sliders are given board.bitboards.all_pieces as blockers", kb.where(bi), bad_what="a slider is given `%s` as blockers" % expr_str(e))


def c_dedup(ctx, key):
    seen = ctx.__dict__.setdefault("_seen06", {})
    n = seen.get(key, 0) + 1
    seen[key] = n
    return key if n == 1 else "%s#%d" % (key, n)


def rule_subset_enum(ctx):
    """get_blockers_from_index(idx, mask) pairs bit i of idx with the i-th lowest set bit of mask, for i in 0..popcount(mask):
    with idx running over 0..2^popcount it therefore enumerates every subset of the mask exactly once."""
    ix = ctx.ix
    from .c05 import loop_range
    b = ctx.body("board::piece::Magic::get_blockers_from_index")
    sym = ctx.sym(b)
    # loop bound: 0 .. count_ones(mask)
    rng = None
    for bi, i, s in b.stmts():
        rv = s["rv"]
        if rv.get("k") == "agg" and rv.get("adt", "").endswith("ops::Range") and len(rv["ops"]) == 2:
            lo = const_int(rv["ops"][0])
            hi = sym.operand(rv["ops"][1])
            rng = (lo, hi)
    ok = rng is not None and rng[0] == 0 and rng[1][0] == "call" and rng[1][1] == "board::bitboard::Bitboard::count_ones" and mir.strip_copies(rng[1][2][0]) == ("arg", "mask")
    # count_ones must be taken before the mask is consumed
    drops = [(bi, t) for bi, t in b.calls() if callee_is(t, "board::bitboard::Bitboard::drop_forward")]
    cnt = [bi for bi, t in b.calls() if callee_is(t, "board::bitboard::Bitboard::count_ones")]
    ok = ok and len(cnt) == 1 and len(drops) == 1 and not b.in_loop(cnt[0]) and b.dominates(cnt[0], drops[0][0])
    ctx.check(ok, "subset-enum:loop-over-popcount", "the loop runs i over 0..mask.count_ones(), counted before any bit is dropped", b.where(0), bad_what="get_blockers_from_index does not loop over 0..popcount(mask) (range %s)" % (rng,))
    if len(drops) == 1:
        db, dt = drops[0]
        on_mask = mir.strip_refs(sym.operand(dt["args"][0])) == ("arg", "mask")
        once = b.in_loop(db) and db not in b.reachable_from(dt["target"], removed=set(bi for bi, t in b.calls() if "Range<A>>::next" in (t.get("callee") or "")), include_start=True)
        ctx.check(on_mask and once, "subset-enum:one-bit-per-iteration", "each iteration pops exactly one (the lowest) set bit of the mask", b.where(db), bad_what="drop_forward is not applied to the mask exactly once per iteration")
        # the OR: blockers |= 1 << <that bit index>, under (idx & (1 << i)) != 0
        ors = [(bi, t) for bi, t in b.calls() if callee_is(t, "*BitOrAssign<u64>>::bitor_assign", "*BitOrAssign>::bitor_assign")]
        ok = len(ors) == 1
        if ok:
            ob, ot = ors[0]
            val = sym.operand(ot["args"][1])
            tgt = mir.strip_refs(sym.operand(ot["args"][0]))
            shl_ok = val[0] == "bin" and val[1].startswith("Shl") and val[2][0] == "const" and val[2][1] == 1 and val[3][0] == "call" and val[3][1] == "board::bitboard::Bitboard::drop_forward"
            cons = C.constraints_for(ix, b, sym, ob)
            g = [c for c in cons if c[3][0] == "bin" and c[3][1] in ("Ne", "Eq", "Gt")]
            cond_ok = False
            for c in g:
                e = c[3]
                want_true = e[1] in ("Ne", "Gt")
                lhs = e[2]
                if lhs[0] == "bin" and lhs[1] == "BitAnd" and e[3][0] == "const" and e[3][1] == 0 and (want_true in c[1]):
                    a, m = lhs[2], lhs[3]
                    if a != ("arg", "idx"):
                        a, m = m, a
                    if a == ("arg", "idx") and m[0] == "bin" and m[1].startswith("Shl") and m[2][0] == "const" and m[2][1] == 1 and loop_range(sym, m[3]) is None:
                        # m[3] must be the loop variable i
                        lv = m[3]
                        cond_ok = lv[0] == "field" and lv[-1] == "0" and lv[1][0] == "as" and lv[1][2] == "Some"
            # the result variable starts at 0 and is what is returned
            r = sym.local(0)
            ret_ok = r == tgt and tgt[0] == "var"
            ok = shl_ok and cond_ok and ret_ok
        ctx.check(ok, "subset-enum:bit-i-selects-ith-mask-bit", "blockers |= 1 << (popped bit) exactly when bit i of idx is set; blockers is returned", b.where(ors[0][0] if ors else 0),
                  bad_what="the pairing `idx bit i <-> i-th lowest mask bit` is not what get_blockers_from_index implements")
    df = ctx.body("board::bitboard::Bitboard::drop_forward")
    dsym = ctx.sym(df)
    r = dsym.local(0)
    clr = [dsym.rvalue(s["rv"]) for bi, i, s in df.stmts() if fields_of(s["lhs"]) == ("0",) and s["lhs"]["p"][0] == "*"]
    ok = r[0] == "call" and r[1] == "board::bitboard::Bitboard::bitscan_forward" and len(clr) == 1 and clr[0][0] == "bin" and clr[0][1] == "BitAnd" and \
        any(x[0] == "bin" and x[1].startswith("Sub") and x[3] == ("const", 1, "u64") for x in (clr[0][2], clr[0][3]) if isinstance(x, tuple))
    ctx.check(ok, "drop_forward:pops-lowest-bit", "drop_forward returns trailing_zeros and clears that bit (x &= x - 1)", df.where(0), bad_what="drop_forward is `%s` / clears with %s" % (expr_str(r), [expr_str(c) for c in clr]))




BITVEC = "board::bitboard::<impl std::convert::From<board::bitboard::Bitboard> for std::vec::Vec<board::square::Square>>::from"


def pops_bits(ix, cb, inputs=None):
    """Walk a `next`-like body (a closure handed to iter::from_fn, or Iterator::next of a small struct) for both outcomes of
    its emptiness test: with the mask empty it returns None and touches nothing; otherwise it returns
    Some(Square::from(index of the lowest set bit)) and clears exactly that bit, once.  Returns (None, mask expression) or
    (reason, None)."""
    from . import cases
    run = cases.run(ix, cb, inputs or {})
    paths = [p for p in run.paths if p.end not in ("panic", "unreachable")]
    if run.overflow or len(paths) != 2 or not all(p.end == "return" for p in paths):
        return "it does not have exactly two outcomes", None
    seen = {}
    for p in paths:
        conds = [cases.cond_truth(c) for c in p.conds]
        if len(conds) != 1:
            return "an outcome depends on %d tests, not on one emptiness test of the mask" % len(conds), None
        d, t = conds[0]
        if d[0] == "call" and d[1].endswith("Bitboard::is_empty") and len(d[2]) == 1:
            mask, empty = mir.strip_copies(mir.strip_refs(d[2][0])), t
        elif d[0] == "bin" and d[1] in ("Eq", "Ne") and d[3][0] == "const" and d[3][1] == 0:
            mask, empty = mir.strip_copies(d[2]), (t if d[1] == "Eq" else (None if t is None else not t))
        else:
            return "its test `%s` is not an emptiness test" % expr_str(d)[:60], None
        if empty is None:
            return "its test is not two-way", None
        pops = [e for e in p.events if e[0] == "call" and e[2].endswith("Bitboard::drop_forward")]
        tz = [e for e in p.events if e[0] == "call" and e[2].endswith("::trailing_zeros")]
        stores = [e for e in p.events if e[0] == "store"]
        r = mir.strip_copies(p.ret) if p.ret is not None else ("?",)
        if empty:
            if not (r[0] == "agg" and r[2] == "None" and not pops and not stores):
                return "with the mask empty it yields `%s` (or writes something)" % expr_str(r)[:60], None
        else:
            v = mir.strip_copies(r[3][0]) if r[0] == "agg" and r[2] == "Some" and len(r[3]) == 1 else ("?",)
            a = mir.strip_copies(v[2][0]) if v[0] == "call" and v[1].endswith("Square as std::convert::From<u8>>::from") and len(v[2]) == 1 else ("?",)
            while a[0] == "cast":
                a = mir.strip_copies(a[1])
            if pops:
                good = len(pops) == 1 and not stores and a[0] == "call" and a[1].endswith("Bitboard::drop_forward") and mir.strip_copies(mir.strip_refs(pops[0][3][0])) == mask
            else:
                # index read first, then `m &= m - 1`, and that is the only write
                good = len(tz) == 1 and len(stores) == 1 and a[0] == "call" and a[1].endswith("::trailing_zeros") and mir.strip_copies(a[2][0]) == mask and mir.strip_copies(tz[0][3][0]) == mask
                if good:
                    st = stores[0]
                    val = mir.strip_copies(st[3]) if len(st) > 3 else ("?",)
                    good = p.events.index(tz[0]) < p.events.index(st) and val[0] == "bin" and val[1] == "BitAnd" and any(
                        mir.strip_copies(x) == mask and y[0] == "bin" and y[1].startswith("Sub") and mir.strip_copies(y[2]) == mask and y[3][0] == "const" and y[3][1] == 1 for x, y in ((val[2], val[3]), (val[3], val[2])))
                    good = good and (st[2] == expr_str(mask) if isinstance(st[2], str) else mir.strip_copies(st[2]) == mask)
            if not good:
                return "with the mask not empty it yields `%s` after %d pop(s) and %d write(s)" % (expr_str(r)[:70], len(pops), len(stores)), None
        if empty in seen and seen[empty] != mask:
            return "the two outcomes test different masks", None
        seen[empty] = mask
    if set(seen) != {True, False} or seen[True] != seen[False]:
        return "the emptiness test does not decide between None and Some", None
    return None, seen[True]


def bit_iterators(ix):
    """Iterator types of the crate that yield the squares of a mask: a struct with one field (a Bitboard or its u64) whose
    `next` pops the lowest set bit (`pops_bits`).  {type path: (field name, field type)}; the verdict per candidate type is in
    `bit_iterator_verdicts`."""
    key = ("bit_iterators", ix.uid)
    if key in _BIT_ITERS:
        return _BIT_ITERS[key]
    import re
    out, verdicts = {}, {}
    for k, body in ix.bodies.items():
        m = re.match(r"^<(.+) as std::iter::Iterator>::next$", k) or re.match(r"^.*::<impl std::iter::Iterator for (.+)>::next$", k)
        if not m:
            continue
        a = ix.adts.get(m.group(1))
        if a is None or a["kind"] != "Struct" or len(a["variants"]) != 1 or len(a["variants"][0]["fields"]) != 1:
            continue
        f = a["variants"][0]["fields"][0]
        if f["ty"] not in ("board::bitboard::Bitboard", "u64"):
            continue
        why, mask = pops_bits(ix, body)
        if why is None:
            mm = mask
            while mm[0] == "field" and mm[-1] == "0" and f["ty"] != "u64" and len(mm) == 3:
                mm = mir.strip_copies(mm[1])
            if not (mm[0] == "field" and mm[2:] == (f["name"],) and mir.strip_copies(mir.strip_refs(mm[1])) in (("deref", ("arg", body.local_name(1))), ("arg", body.local_name(1)))):
                why = "the mask it pops is `%s`, not its own field" % expr_str(mask)[:60]
        verdicts[m.group(1)] = (why, body)
        if why is None:
            out[m.group(1)] = (f["name"], f["ty"])
    _BIT_ITERS[key] = out
    _BIT_ITERS[("verdicts", ix.uid)] = verdicts
    return out


_BIT_ITERS = {}


def bit_iterator_over(ix, e):
    """If `e` is a value of a verified bit-iterator type built over a mask, that mask (a Bitboard-valued expression; `m.0` is
    reduced to m); else None."""
    e = mir.strip_copies(e)
    its = bit_iterators(ix)
    if e[0] == "agg" and e[1] in its and len(e[3]) == 1:
        m = mir.strip_copies(e[3][0])
        if its[e[1]][1] == "u64" and m[0] == "field" and m[-1] == "0" and len(m) == 3:
            m = mir.strip_copies(m[1])
        elif its[e[1]][1] == "u64":
            return None
        return m
    return None


def _bit_iteration_from_fn(ctx, b, sym):
    """The generator spelling: `iter::from_fn(|| (!rest.is_empty()).then(|| Square::from(rest.drop_forward() as u8))).collect()`.
    from_fn calls the closure until it returns None; the closure is walked for both outcomes of its emptiness test."""
    ret = mir.strip_copies(sym.local(0))
    shape = ret[0] == "call" and ret[1] == "std::iter::Iterator::collect" and len(ret[2]) == 1 and ret[2][0][0] == "call" and ret[2][0][1] == "std::iter::from_fn" and len(ret[2][0][2]) == 1 and ret[2][0][2][0][0] == "closure"
    ctx.check(shape, "bit-iteration:once-per-set-bit", "the result is from_fn(closure).collect()", b.where(0), bad_what="Vec<Square>::from(Bitboard) is `%s`: not a form this rule reads" % expr_str(ret)[:100])
    if not shape:
        return
    clo = ret[2][0][2][0]
    caps = [mir.strip_refs(c) for c in clo[2]]
    cb = ctx.ix.bodies.get(clo[1])
    ok = cb is not None and len(caps) == 1 and caps[0][0] == "var"
    why = "the closure does not capture exactly one local"
    if ok:
        ctx.functions.add(cb.key)
        ml = [l for l in range(len(b.locals)) if b.local_name(l) == caps[0][1]]
        ds = b.defs().get(ml[0], []) if len(ml) == 1 else []
        init = mir.strip_copies(sym.rvalue(ds[0][2])) if len(ds) == 1 and ds[0][2].get("k") not in ("call", "partial") else None
        ok = init is not None and init[0] == "arg" and b.locals[ml[0]]["ty"] == "board::bitboard::Bitboard"
        why = "the popped mask does not start as the argument"
    if ok:
        why, mask = pops_bits(ctx.ix, cb)
        ok = why is None
        if ok:
            mm = mask
            while mm[0] in ("deref", "ref"):
                mm = mir.strip_copies(mm[1])
            ok = mm[0] == "field" and mm[-1] == "0" and mir.strip_copies(mir.strip_refs(mm[1])) in (("deref", ("arg", cb.local_name(1))), ("arg", cb.local_name(1)))
            why = "the closure pops `%s`, not the mask it captured" % expr_str(mask)[:60]
        else:
            why = "the closure: " + why
    ctx.check(ok, "bit-iteration:pushes-that-square", "the closure yields None exactly when the mask is empty and otherwise Some(Square::from(index of the lowest set bit)), popping that bit once", b.where(0),
              bad_what="Vec<Square>::from(Bitboard): %s; some set bits yield no square, or a square twice" % why)


def rule_bit_iteration(ctx):
    """`Vec<Square>::from(Bitboard)`, through which every generator turns its target mask into destination squares, yields
    the square of every set bit exactly once, lowest first."""
    ix = ctx.ix
    # iterator types that hand out the squares of a mask one by one (`for s in mask.squares()`, `.squares().map(..)`)
    its = bit_iterators(ix)
    for ty, (why, nb) in sorted(_BIT_ITERS.get(("verdicts", ix.uid), {}).items()):
        ctx.functions.add(nb.key)
        ctx.check(why is None, "bit-iterator:%s" % ty, "%s::next yields None exactly when its mask is empty and otherwise the square of the lowest set bit, clearing that bit once" % C.short(ty), nb.where(0),
                  bad_what="%s::next: %s; iterating a mask with it misses squares or repeats them" % (C.short(ty), why))
    if BITVEC not in ix.bodies and its:
        ctx.ok("bit-iteration:by-iterator-types", "masks are turned into squares by the iterator type(s) %s only (no Vec<Square>::from(Bitboard))" % ", ".join(sorted(C.short(t) for t in its)))
        return
    b = ctx.body(BITVEC)
    sym = ctx.sym(b)
    ret0 = mir.strip_copies(sym.local(0))
    if ret0[0] == "call" and ret0[1] == "std::iter::Iterator::collect" and len(ret0[2]) == 1 and bit_iterator_over(ix, ret0[2][0]) is not None:
        m = bit_iterator_over(ix, ret0[2][0])
        ctx.check(m[0] == "arg", "bit-iteration:once-per-set-bit", "the list is collected from a verified bit iterator over the argument", b.where(0), bad_what="Vec<Square>::from(Bitboard) collects the squares of `%s`, not of its argument" % expr_str(m)[:60])
        return
    pushes = [(bi, t) for bi, t in b.calls() if callee_is(t, "std::vec::Vec::push", "std::vec::Vec::<T, A>::push")]
    if not pushes and [t for _b, t in b.calls() if callee_is(t, "std::iter::from_fn")]:
        return _bit_iteration_from_fn(ctx, b, sym)
    ctx.check(len(pushes) == 1, "bit-iteration:one-push", "one push site", b.where(0), bad_what="%d push sites in Vec<Square>::from(Bitboard)" % len(pushes))
    if len(pushes) != 1:
        return
    pb, pt = pushes[0]
    why, info = C.pop_loop(b, sym, pb)
    ctx.check(why is None, "bit-iteration:once-per-set-bit", "the loop runs once for every set bit of the mask: it leaves exactly when the mask is empty and each round reads the lowest bit's index, then clears that bit (m &= m - 1)", b.where(pb),
              bad_what="Vec<Square>::from(Bitboard): %s; some set bits yield no square, or a square twice" % why)
    if why is not None:
        return
    init = mir.strip_copies(info["init"])
    ctx.check(init[0] == "field" and init[1][0] == "arg" and init[2:] == ("0",), "bit-iteration:starts-from-the-argument", "the mask starts as the argument's word", b.where(0),
              bad_what="the bit loop starts from `%s`, not from the bitboard passed in" % expr_str(init)[:80])
    val = mir.strip_copies(sym.operand(pt["args"][1]))
    idx = info["index"]
    ok = val[0] == "call" and val[1].endswith("Square as std::convert::From<u8>>::from") and len(val[2]) == 1
    if ok:
        a = mir.strip_copies(val[2][0])
        while a[0] == "cast":
            a = mir.strip_copies(a[1])
        ok = a[0] == "call" and a[1] == idx[1] and (idx[2] is None or tuple(mir.strip_copies(x) for x in a[2]) == idx[2])
    ctx.check(ok and info["once"](pb), "bit-iteration:pushes-that-square", "each round pushes Square::from(index of the lowest set bit), once", b.where(pb),
              bad_what="the value pushed is `%s`%s" % (expr_str(val)[:100], "" if info["once"](pb) else " and is not pushed exactly once per round"))
    vec = mir.strip_refs(sym.operand(pt["args"][0]))
    ret = mir.strip_copies(sym.local(0))
    others = [(bi, t) for bi, t in b.calls() if bi != pb and any(mir.strip_refs(sym.operand(a)) == vec and sym.operand(a)[0] == "ref" for a in t["args"])]
    new = [t for bi, t in b.calls() if callee_is(t, "std::vec::Vec::<T>::new", "std::vec::Vec::new", "std::vec::Vec::<T>::with_capacity", "std::vec::Vec::with_capacity") and not b.in_loop(bi)]
    ctx.check(vec[0] == "var" and ret == vec and not others and len(new) == 1, "bit-iteration:returns-the-pushed-list", "the list starts empty, only the loop's push touches it, and it is what is returned", b.where(0),
              bad_what="the returned list is `%s` (pushed-to list `%s`, %d other uses by reference, %d empty-list constructions)" % (expr_str(ret)[:60], expr_str(vec)[:60], len(others), len(new)))


# --------------------------------------------------------------------------------- C06.rays

WIDTH = {"u8": 8, "u16": 16, "u32": 32, "u64": 64, "usize": 64, "i8": 8, "i16": 16, "i32": 32, "i64": 64, "isize": 64, "char": 32}


class Undef(Exception):
    """The expression tree contains something the folder has no meaning for, or an operation that would panic."""


def _loop_step_summary(ix, key):
    """For `fn f(self, n) { let mut out = self; for _ in 0..n { out = STEP(out) } out }`: the expression STEP (over the
    variable `output`), or None when the body is not of that shape."""
    b = ix.bodies.get(key)
    if b is None:
        return None
    sym = mir.Sym(b, ix)
    ret0 = sym.local(0)
    # the same loop written as a fold: (0..n).fold(self, |acc, _| STEP(acc))
    if ret0[0] == "call" and ret0[1].endswith("::fold") and "Iterator" in ret0[1] and len(ret0[2]) == 3:
        rng, init, clo = ret0[2]
        rng_ok = rng[0] == "agg" and isinstance(rng[1], str) and rng[1].endswith("ops::Range") and len(rng[3]) == 2 and rng[3][0][:2] == ("const", 0) and rng[3][1] == ("arg", "n")
        if rng_ok and init == ("arg", "self") and clo[0] == "closure" and clo[1] in ix.bodies and not clo[2]:
            cb = ix.bodies[clo[1]]
            if cb.arg_count == 3 and not any(cb.in_loop(blk.idx) for blk in cb.blocks if not blk.cleanup):
                st = mir.Sym(cb, ix).local(0)
                acc = cb.local_name(2)
                if not any(isinstance(x, tuple) and x[0] in ("var", "unknown") for x in walk(st)):
                    return acc, st
        return None
    if ret0[0] != "var":
        return None
    acc = ret0[1]  # the accumulator is the variable that is returned, whatever it is called
    outs = [l for l in range(len(b.locals)) if b.local_name(l) == acc]
    if len(outs) != 1:
        return None
    defs = b.defs().get(outs[0], [])
    if len(defs) != 2:
        return None
    init = [d for d in defs if not b.in_loop(d[0])]
    step = [d for d in defs if b.in_loop(d[0])]
    if len(init) != 1 or len(step) != 1:
        return None
    if sym.rvalue(init[0][2]) != ("arg", "self"):
        return None
    # one loop, over Range{0, n}
    its = [l for l in range(len(b.locals)) if b.local_name(l).startswith("iter")]
    if len(its) != 1:
        return None
    rng = sym.expand_var(("var", b.local_name(its[0])))
    ok = False
    for x in walk(rng):
        if isinstance(x, tuple) and x[0] == "agg" and isinstance(x[1], str) and x[1].endswith("ops::Range") and len(x[3]) == 2:
            ok = x[3][0][:2] == ("const", 0) and x[3][1] == ("arg", "n")
    ret = sym.local(0)
    if not ok or ret != ("var", acc):
        return None
    rv = step[0][2]
    st = sym.rvalue(rv) if rv.get("k") != "call" else ("call", strip_generics(mir.callee_name(rv["t"])), tuple(sym.operand(a) for a in rv["t"]["args"]))
    return acc, st


def fold_tree(ix, e, env, depth=0):
    """Value of a closed arithmetic expression under `env` ({rendered leaf: int | dict}).  Crate functions whose body is one
    expression (the Bitboard operator impls, conversions) are folded through their return expression; the two n-fold
    shift loops through their recognised step.  Raises Undef for anything else."""
    if depth > 30:
        raise Undef("too deep")
    key = expr_str(e)
    if key in env:
        return env[key]
    k = e[0]
    if k == "const" and isinstance(e[1], int):
        return e[1]
    if k in ("ref", "deref"):
        return fold_tree(ix, e[1], env, depth + 1)
    if k == "cast":
        v = fold_tree(ix, e[1], env, depth + 1)
        w = WIDTH.get(e[2])
        if not isinstance(v, int) or w is None:
            raise Undef("cast to %s" % e[2])
        v &= (1 << w) - 1
        if env.get("__signed__") and e[2].startswith("i") and v >= 1 << (w - 1):
            v -= 1 << w     # two's complement value of a signed target type
        return v
    if k == "un":
        v = fold_tree(ix, e[2], env, depth + 1)
        if e[1] == "Not" and isinstance(v, int):
            return (~v) & M64
        raise Undef("unary %s" % e[1])
    if k == "bin":
        a, b = fold_tree(ix, e[2], env, depth + 1), fold_tree(ix, e[3], env, depth + 1)
        if not isinstance(a, int) or not isinstance(b, int):
            raise Undef("operands of %s" % e[1])
        op = e[1].replace("WithOverflow", "").replace("Unchecked", "")
        if op in ("Shl", "Shr"):
            if not 0 <= b < 64:
                raise Undef("shift by %d" % b)
            return (a << b) & M64 if op == "Shl" else a >> b
        if op == "Add":
            r = a + b
        elif op == "Sub":
            r = a - b
        elif op == "Mul":
            r = a * b
        elif op == "Div":
            if b == 0:
                raise Undef("division by zero")
            r = a // b if not env.get("__signed__") else int(a / b)      # Rust truncates toward zero
        elif op == "Rem":
            if b == 0:
                raise Undef("remainder by zero")
            r = a % b if not env.get("__signed__") else a - b * int(a / b)   # sign of the dividend
        elif op == "BitAnd":
            r = a & b
        elif op == "BitOr":
            r = a | b
        elif op == "BitXor":
            r = a ^ b
        elif op in ("Eq", "Ne", "Lt", "Le", "Gt", "Ge"):
            return int({"Eq": a == b, "Ne": a != b, "Lt": a < b, "Le": a <= b, "Gt": a > b, "Ge": a >= b}[op])
        else:
            raise Undef("operator %s" % op)
        if env.get("__signed__"):
            if abs(r) > M64 >> 1:
                raise Undef("%s overflows" % op)
            return r     # signed arithmetic of the narrow integer types: intermediate values may be negative
        if r < 0 or r > M64:
            raise Undef("%s overflows" % op)
        return r
    if k == "agg":
        if isinstance(e[1], str) and e[1].endswith("Bitboard") and len(e[3]) == 1:
            return fold_tree(ix, e[3][0], env, depth + 1)
        if len(e) > 4 and e[4]:
            return {n: fold_tree(ix, x, env, depth + 1) for n, x in zip(e[4], e[3])}
        raise Undef("aggregate %s" % e[1])
    if k == "field":
        base = fold_tree(ix, e[1], env, depth + 1)
        for n in e[2:]:
            if isinstance(base, dict) and n in base:
                base = base[n]
            elif isinstance(base, int) and n == "0":
                pass  # Bitboard(x).0
            else:
                raise Undef("field %s" % n)
        return base
    if k == "call" and isinstance(e[1], str):
        c = e[1]
        args = e[2]
        if c.endswith("Bitboard::new") or c.endswith(">::into") or (c.endswith(">::from") and "Square" not in c) or c.endswith("::clone") or c.endswith("Bitboard as std::ops::Deref>::deref"):
            return fold_tree(ix, args[0], env, depth + 1)
        if c.endswith("::checked_shl") or c.endswith("::checked_shr"):
            a, n = fold_tree(ix, args[0], env, depth + 1), fold_tree(ix, args[1], env, depth + 1)
            if not 0 <= n < 64:
                return {"__none__": True}
            return (a << n) & M64 if c.endswith("shl") else a >> n
        if c.endswith("Option::unwrap_or"):
            a = fold_tree(ix, args[0], env, depth + 1)
            return fold_tree(ix, args[1], env, depth + 1) if isinstance(a, dict) and a.get("__none__") else a
        m = re.match(r"^<(u8|u16|u32|u64|usize) as std::ops::(Shl|Shr|BitAnd|BitOr|BitXor|Add|Sub|Mul|Div|Rem)(<.*>)?>::[a-z]+$", c)
        if m and len(args) == 2:
            return fold_tree(ix, ("bin", m.group(2), args[0], args[1]), env, depth + 1)
        m = re.match(r"^<(u8|u16|u32|u64|usize) as std::ops::Not>::not$", c)
        if m and len(args) == 1:
            return fold_tree(ix, ("un", "Not", args[0]), env, depth + 1)
        if c.endswith("::wrapping_mul"):
            return (fold_tree(ix, args[0], env, depth + 1) * fold_tree(ix, args[1], env, depth + 1)) & M64
        if c in ("board::bitboard::Bitboard::shift_east", "board::bitboard::Bitboard::shift_west"):
            step = _loop_step_summary(ix, c)
            if step is None:
                raise Undef("%s is not an n-fold step loop" % mir.short(c))
            x, n = fold_tree(ix, args[0], env, depth + 1), fold_tree(ix, args[1], env, depth + 1)
            if not isinstance(n, int) or n > 64:
                raise Undef("step count")
            acc, st = step
            for _ in range(n):
                x = fold_tree(ix, st, {acc: x}, depth + 1)
            return x
        cb = ix.bodies.get(c)
        if cb is not None and cb.kind == "fn" and not any(cb.in_loop(blk.idx) for blk in cb.blocks if not blk.cleanup and blk.idx in cb.live_blocks()):
            r = mir.Sym(cb, ix).local(0)
            if any(isinstance(x, tuple) and x and x[0] in ("var", "unknown") for x in walk(r)):
                raise Undef("%s is not a single expression" % mir.short(c))
            env2 = {}
            for i, a in enumerate(args):
                v = fold_tree(ix, a, env, depth + 1)
                nm = cb.local_name(i + 1)
                env2[nm] = v
                env2["*" + nm] = v
                if isinstance(v, int):
                    env2["%s.0" % nm] = v
                    env2["*%s.0" % nm] = v
                elif isinstance(v, dict):
                    for fk, fv in v.items():
                        env2["%s.%s" % (nm, fk)] = fv
                        env2["*%s.%s" % (nm, fk)] = fv
            return fold_tree(ix, r, env2, depth + 1)
        raise Undef("call of %s" % mir.short(c))
    raise Undef("%s" % k)


def rule_rays(ctx):
    """init_rays: for each of the 8 directions the stored expression, folded for idx = 0..63, is the geometric ray."""
    ix = ctx.ix
    b = ctx.body("board::square::rays::init_rays")
    sym = ctx.sym(b)
    adt = ix.adt("board::square::Direction")
    dname = {int(v["discr"]): v["name"] for v in adt["variants"]}
    stores = {}
    for bi, i, s in b.stmts():
        lhs = s["lhs"]
        if len(lhs["p"]) == 2 and lhs["p"][0] == "*" and isinstance(lhs["p"][1], dict) and ("i" in lhs["p"][1] or "ci" in lhs["p"][1]):
            d = ceval(sym.local(lhs["p"][1]["i"])) if "i" in lhs["p"][1] else lhs["p"][1]["ci"]
            stores.setdefault(dname.get(d, d), []).append((bi, sym.rvalue(s["rv"])))
    ctx.check(sorted(map(str, stores)) == sorted(G.DIRS) and all(len(v) == 1 for v in stores.values()), "rays:eight-stores", "init_rays stores one ray per direction for each square", b.where(0),
              bad_what="init_rays stores rays for %s" % sorted(map(str, stores)))
    # the loop runs over all 64 squares: iter_mut().enumerate() of the 64-element array
    it = None
    for l in range(len(b.locals)):
        if b.local_name(l) == "iter":
            it = sym.expand_var(("var", "iter"))
    tab = None
    if it is not None:
        for x in walk(it):
            if isinstance(x, tuple) and x[0] == "var":
                tab = [b.locals[l]["ty"] for l in range(len(b.locals)) if b.local_name(l) == x[1]]
    ok_loop = it is not None and "enumerate" in expr_str(it) and "iter_mut" in expr_str(it) and bool(tab) and tab[0].replace(" ", "").endswith(";8];64]") and sym.local(0) != ("unknown",)
    ctx.check(ok_loop, "rays:all-squares", "the loop visits rays[0..64] with its index", b.where(0), bad_what="the fill loop of init_rays is not `for (idx, r) in rays.iter_mut().enumerate()` (%s)" % (expr_str(it)[:80] if it else None))
    idx_names = [n for n in ("idx",) if any(b.local_name(l) == n for l in range(len(b.locals)))]
    for d in sorted(G.DIRS):
        if d not in stores or len(stores[d]) != 1:
            continue
        bi, e = stores[d][0]
        bad = []
        why = None
        for sq in range(64):
            env = {}
            # the loop variable, however it is spelt in the expression (named local or the Option payload)
            for x in walk(e):
                if isinstance(x, tuple) and x[0] == "var" and x[1] in ("idx",):
                    env[expr_str(x)] = sq
                if isinstance(x, tuple) and x[0] == "field" and x[-2:] == ("0", "0") and x[1][0] == "as" and "next" in expr_str(x[1]):
                    env[expr_str(x)] = sq
            try:
                v = fold_tree(ix, e, env)
            except Undef as u:
                why = str(u)
                break
            if v != G.ray_mask(sq, d):
                bad.append((G.square_name(sq), "0x%016x" % v if isinstance(v, int) else v, "0x%016x" % G.ray_mask(sq, d)))
        if why:
            ctx.bad("rays:%s" % d, "the %s ray expression cannot be folded (%s): cannot decide" % (d, why), b.where(bi))
        else:
            ctx.check(not bad, "rays:%s" % d, "rays[sq][%s] is the geometric %s ray for all 64 squares" % (d, d), b.where(bi),
                      bad_what="rays[sq][%s] is not the geometric ray for %d square(s), e.g. %s (got, expected)" % (d, len(bad), bad[:3]))


OPS = {"BitAnd": "bitand", "BitOr": "bitor", "BitXor": "bitxor", "Mul": "wrapping_mul", "Shl": "checked_shl", "Shr": "shr", "Add": "checked_add", "Sub": "saturating_sub"}


def rule_bitboard_ops(ctx):
    """The Bitboard newtype's operators are the u64 operators of the same name on the wrapped word (everything else in this
    property reasons about `&`, `|`, `<<` ... on bitboards as if they were the integer operations)."""
    ix = ctx.ix
    n = 0
    for k in sorted(ix.bodies):
        b = ix.bodies[k]
        m = re.match(r"^<board::bitboard::Bitboard as std::ops::(\w+?)(Assign)?(<.*>)?>::(\w+)$", k)
        if not m or b.kind != "fn":
            continue
        op, assign = m.group(1), bool(m.group(2))
        if op in ("Deref", "DerefMut"):
            continue
        n += 1
        ctx.functions.add(k)
        r = ctx.sym(b).local(0)
        ok = False
        why = expr_str(r)[:90]
        if op == "Not":
            ok = r[0] == "agg" and r[3] and r[3][0] == ("un", "Not", ("field", ("arg", "self"), "0"))
        elif assign:
            # forwards to the std assign operator on the word, or to its own sibling taking a u64, or assigns self = self OP rhs
            calls = [strip_generics(t.get("callee") or "") for _bi, t in b.calls()]
            low = OPS.get(op, op.lower()).replace("checked_", "").replace("wrapping_", "").replace("saturating_", "")
            ok = len(calls) >= 1 and all(low in c.lower() or "unwrap_or" in c for c in calls) and len(b.blocks) <= 4
            why = str(calls)
        elif op in OPS:
            inner = r[3][0] if r[0] == "agg" and r[3] else None
            if inner is not None and inner[0] == "call" and inner[1].endswith("Option::unwrap_or") and inner[2][1][:2] == ("const", 0):
                inner = inner[2][0]
            want = OPS[op]
            if inner is not None and inner[0] == "call" and (inner[1].endswith("::" + want) or inner[1].endswith(">::" + want.replace("wrapping_", "").replace("checked_", "").replace("saturating_", ""))):
                a0, a1 = inner[2][0], inner[2][1]
                ok = a0 == ("field", ("arg", "self"), "0") and a1 in (("arg", "rhs"), ("field", ("arg", "rhs"), "0"))
            elif inner is not None and inner[0] == "bin" and inner[1].replace("WithOverflow", "").replace("Unchecked", "") == op:
                ok = inner[2] == ("field", ("arg", "self"), "0") and inner[3] in (("arg", "rhs"), ("field", ("arg", "rhs"), "0"))
        else:
            continue
        ctx.check(ok, "bitboard-op:%s" % k.split(" as ")[1], "Bitboard %s%s is the u64 operation on the wrapped word" % (op, "Assign" if assign else ""), b.where(0),
                  bad_what="the Bitboard operator %s%s is `%s`, not the u64 operation of that name on (self.0, rhs)" % (op, "Assign" if assign else "", why))
    ctx.floor("Bitboard operator impls", n, 20)
    fb = ctx.body("<board::bitboard::Bitboard as std::convert::From<board::square::Square>>::from")
    r = ctx.sym(fb).local(0)
    bad = []
    for sq in range(64):
        try:
            v = fold_tree(ix, r, {"square": {"rank": sq // 8, "file": sq % 8}, "square.rank": sq // 8, "square.file": sq % 8})
        except Undef as u:
            bad.append((sq, str(u)))
            break
        if v != 1 << sq:
            bad.append((G.square_name(sq), v))
    ctx.check(not bad, "bitboard-of-square", "Bitboard::from(square) is the single bit rank*8+file for all 64 squares", fb.where(0), bad_what="Bitboard::from(square) is wrong for %s" % bad[:3])
    ie = ctx.body("board::bitboard::Bitboard::is_empty")
    r = ctx.sym(ie).local(0)
    ctx.check(r == ("bin", "Eq", ("field", ("arg", "self"), "0"), ("const", 0, "u64")), "bitboard-is_empty", "is_empty() is `word == 0`", ie.where(0), bad_what="is_empty() is `%s`" % expr_str(r))


RULES = [("bitboard-ops", rule_bitboard_ops), ("rays", rule_rays), ("magic", rule_magic), ("scheme", rule_scheme), ("mask-edges", rule_mask_edges), ("ray-walk", rule_ray_walk), ("leapers", rule_leapers), ("queen", rule_queen), ("subset-enum", rule_subset_enum), ("bit-iteration", rule_bit_iteration)]


def run(tier):
    return engine.main(
        PROP, "attack tables exact", RULES, "other",
        explanation=("Magic constants are validated completely: MAGICS, INDEX_BITS and ATTACKS_TABLE_SIZE are read from the type-checked program and, with relevant-occupancy masks and attack sets from an "
                     "independent geometric oracle, all 64+64 entries are checked over ALL blocker subsets (107,648) for index width, row bound and absence of destructive collisions. Structural rules tie the "
                     "constants to the code: reader and writer compute the same index expression over the same tables; rook/bishop masks drop exactly the far edge of each ray; the slow ray walk blocks each "
                     "direction with the right scan and clears the same direction; leaper initialisers normalise to exactly the 8/8/2+2 steps with exactly the wrapping files masked; queen = rook | bishop; "
                     "Kind::get_attacks dispatches correctly with all_pieces as blockers. get_blockers_from_index pairs bit i of the index with the i-th lowest mask bit over 0..popcount (so the fill loop enumerates every subset). "
                     "The eight ray expressions of init_rays, the leaper initialisers and the Bitboard operator impls are folded for all 64 squares (through the n-fold shift loops, in loop or fold form) "
                     "and compared with the oracle; each leaper store runs for every square that has attacks (an in-loop condition is folded for the 64 squares). "
                     "`Vec<Square>::from(Bitboard)` is read as a pop-lowest-bit loop: it leaves exactly when the mask is empty, and every round reads trailing_zeros, pushes that square once and clears that bit."),
        assumptions=["square index = rank*8+file (checked by C04.same-words)"],
        extra={"exhaustive": True}, tier=tier)
