"""C11  Pruning, move ordering and re-searches never change the search result  (DESIGN 3, C11).

Equality with the minimax value is value-level and not decided.  The statement defines the reference game by
structural features; the rules check that the implementation has exactly those, and that ordering can
neither add nor drop moves."""
from . import engine, mir
from . import common as C
from .c02 import eff
from .c12 import is_loop_move
from .mir import expr_str, walk, callee_is, const_int, op_place, strip_generics, fields_of

PROP = "C11"
NEXT = "<search::move_orderer::MoveOrderer as std::iter::Iterator>::next"
ORDERER_NEW = "search::move_orderer::MoveOrderer::new"
SCORE_MOVES = "search::move_orderer::score_moves"
SCORE_MOVE = "search::move_orderer::score_move"


def self_field(e, name):
    return isinstance(e, tuple) and e[0] == "field" and e[-1] == name and mir.strip_refs(e[1]) == ("arg", "self")


SELECTORS = ("Iterator::max_by_key", "Iterator::min_by_key", "Iterator::max_by", "Iterator::min_by", "Iterator::max", "Iterator::min", "Iterator::last")


def selection_over_pending(sym, e):
    """e = <selector>( [Rev](Range{self.index + c, len(scored_moves)}) [, key closure] ): an element of the pending range,
    None exactly when that range is empty (index + c >= len)."""
    e = mir.strip_copies(e)
    if e[0] == "call" and e[1].endswith("Try>::branch") and e[2]:
        e = mir.strip_copies(e[2][0])
    if not (e[0] == "call" and isinstance(e[1], str) and e[1].endswith(SELECTORS) and e[2]):
        return None
    it = mir.strip_copies(e[2][0])
    while it[0] == "call" and it[1] in ("std::iter::Iterator::rev", "<I as std::iter::IntoIterator>::into_iter") and it[2]:
        it = mir.strip_copies(it[2][0])
    if not (it[0] == "agg" and isinstance(it[1], str) and it[1].endswith("ops::Range") and len(it[3]) == 2):
        return None
    st, en = it[3]
    off = 0 if self_field(st, "index") else (st[3][1] if st[0] == "bin" and st[1].startswith("Add") and self_field(st[2], "index") and st[3][0] == "const" and st[3][1] >= 0 else None)
    end_ok = en[0] == "call" and en[1].endswith("Vec::len") and self_field(mir.strip_refs(en[2][0]), "scored_moves")
    if off is None or not end_ok:
        return None
    return off, (e[2][1] if len(e[2]) > 1 else None)


def rule_permutation(ctx):
    """MoveOrderer yields every move of its input exactly once."""
    ix = ctx.ix
    b = ctx.body(NEXT)
    sym = ctx.sym(b)
    # (1) None iff index == len
    nones = [bi for bi, i, s in b.stmts() if mir.is_local(s["lhs"]) and s["lhs"]["l"] == 0 and s["rv"].get("k") == "agg" and s["rv"].get("variant") == "None"]
    somes = [bi for bi, i, s in b.stmts() if mir.is_local(s["lhs"]) and s["lhs"]["l"] == 0 and s["rv"].get("k") == "agg" and s["rv"].get("variant") == "Some"]
    q_nones = [bi for bi, t in b.calls() if t["k"] == "call" and mir.is_local(t["dest"]) and t["dest"]["l"] == 0 and "FromResidual" in (t.get("callee") or "") and "Option" in (t.get("callee") or "")]
    if not nones and len(q_nones) == 1 and len(somes) == 1:
        # `let best = (index..len).rev().max_by_key(..)?;`: None is returned exactly when the selection over the pending
        # range yields nothing, i.e. when the range index..len is empty
        cons = C.constraints_for(ix, b, sym, q_nones[0])
        sel = [selection_over_pending(sym, c[3][1]) for c in cons if c[3][0] == "discr"]
        okq = len(cons) == 1 and sel and sel[0] is not None and sel[0][0] == 0
        ctx.check(okq, "next:None-iff-exhausted", "next() returns None exactly when the pending range index..len is empty (the `?` on the selection over it)", b.where(q_nones[0]),
                  bad_what="next() does not return None exactly when index..scored_moves.len() is empty")
        nones = None
    ok = nones is not None and len(nones) == 1 and len(somes) == 1
    if ok:
        cons = C.constraints_for(ix, b, sym, nones[0])
        ok = len(cons) == 1 and cons[0][3][0] == "bin" and cons[0][3][1] == "Eq" and self_field(cons[0][3][2], "index") and cons[0][3][3][0] == "call" and cons[0][3][3][1].endswith("Vec::len") and self_field(mir.strip_refs(cons[0][3][3][2][0]), "scored_moves") and True in cons[0][1]
    if nones is not None:
        ctx.check(ok, "next:None-iff-exhausted", "next() returns None exactly when index == scored_moves.len()", b.where(nones[0] if nones else 0),
                  bad_what="next() does not return None exactly on `index == scored_moves.len()` (e.g. stops one element early and drops the last move)")
    # (2) the only mutation of the vector is one swap(index, best) with best in [index, len)
    e = eff(ix)
    muts = sorted(how for (path, how) in e.writes(NEXT) if path and path[0] == "scored_moves")
    ctx.check(muts == ["call:swap"], "next:only-swap", "the only mutation of scored_moves is slice::swap", b.where(0), bad_what="scored_moves is modified with %s" % muts)
    swaps = [(bi, t) for bi, t in b.calls() if callee_is(t, "core::slice::<impl [T]>::swap")]
    idx_writes = [(bi, s) for bi, i, s in b.stmts() if fields_of(s["lhs"]) == ("index",)]
    ok = len(swaps) == 1 and len(idx_writes) == 1
    if ok:
        sb, st = swaps[0]
        a1 = sym.operand(st["args"][1])
        ok1 = self_field(a1, "index") and sb not in b.reachable_from(idx_writes[0][0])
        # second argument: every definition is self.index or the payload of Range(index + c, len).next()
        p = op_place(st["args"][2])
        src = p["l"] if p is not None and mir.is_local(p) else None
        sd = b.single_def(src) if src is not None else None
        if sd and sd[2].get("k") == "use" and op_place(sd[2]["a"]) is not None and mir.is_local(op_place(sd[2]["a"])):
            src = op_place(sd[2]["a"])["l"]
        defs = b.defs().get(src, [])
        kinds = []
        for (db, di, rv) in defs:
            v = sym.rvalue(rv)
            if self_field(v, "index") and db not in b.reachable_from(idx_writes[0][0]):
                kinds.append("index")
            elif v[0] == "field" and v[-1] == "0" and v[1][0] == "as" and v[1][2] == "Some" and range_from_index(sym, v[1][1]):
                kinds.append("range")
            elif v[0] == "field" and v[2:] == ("0", "0") and v[1][0] == "as" and v[1][2] == "Some" and enumerate_skip_from_index(sym, v[1][1]):
                kinds.append("range")
            elif v[0] == "field" and v[-1] == "0" and v[1][0] == "as" and v[1][2] in ("Continue", "Some") and selection_over_pending(sym, v[1][1]) is not None:
                kinds.append("range")
            else:
                kinds.append("other:" + expr_str(v)[:60])
        ok = ok1 and kinds and all(k in ("index", "range") for k in kinds)
        ctx.check(ok, "next:swap-within-pending-part", "swap(index, best) with best initialised to index and otherwise drawn from (index + c)..len, c >= 0: slots before index are never touched", b.where(sb),
                  bad_what="the swap's arguments are (%s, defs %s): an already yielded slot could be swapped back in, or the scan starts before index" % (expr_str(a1), kinds))
    else:
        ctx.bad("next:swap-within-pending-part", "expected exactly one swap and one index update, found %d / %d" % (len(swaps), len(idx_writes)), b.where(0))
    # (3) index += 1 exactly once, control-equivalent with the Some return
    if len(idx_writes) == 1 and somes:
        ib, s = idx_writes[0]
        v = sym.rvalue(s["rv"])
        inc = any(isinstance(x, tuple) and x[0] == "bin" and x[1].startswith("Add") and self_field(x[2], "index") and x[3] == ("const", 1, "usize") for x in walk(v))
        same = (b.dominates(ib, somes[0]) and b.postdominates(somes[0], ib)) or (b.dominates(somes[0], ib) and b.postdominates(ib, somes[0]))
        ctx.check(inc and same and not b.in_loop(ib), "next:index-advances-by-one", "index += 1 exactly once, executed exactly when Some(..) is returned", b.where(ib),
                  bad_what="the index update is `%s` / not tied one-to-one to the Some return" % expr_str(v))
        # (4) returned element is the one at the pre-increment index
        rv = None
        for bi, i, s2 in b.stmts():
            if bi == somes[0] and mir.is_local(s2["lhs"]) and s2["lhs"]["l"] == 0:
                rv = sym.rvalue(s2["rv"])
        okr = False
        detail = expr_str(rv) if rv else None
        if rv and rv[0] == "agg":
            el = rv[3][0]
            # (*Index::index(&self.scored_moves, I)).ply
            if el[0] == "field" and el[-1] == "ply":
                idxcall = mir.strip_refs(el[1])
                if idxcall[0] == "call" and idxcall[1].endswith("::index") and self_field(mir.strip_refs(idxcall[2][0]), "scored_moves"):
                    I = idxcall[2][1]
                    # form (b): (self.index read after the increment) - 1
                    sub = I[0] == "bin" and I[1].startswith("Sub") and self_field(I[2], "index") and I[3] == ("const", 1, "usize")
                    # where the element is actually read: the Index call on scored_moves with this index, outside the scan
                    reads = [cbi for cbi, ct in b.calls() if ct.get("callee", "").endswith("::index") and len(ct["args"]) == 2 and not b.in_loop(cbi)
                             and self_field(mir.strip_refs(sym.operand(ct["args"][0])), "scored_moves") and sym.operand(ct["args"][1]) == I]
                    swaps = [sbi for sbi, st_ in b.calls() if (st_.get("callee") or "").endswith("::swap")]
                    after_swap = [r for r in reads if swaps and all(b.dominates(sw, r) for sw in swaps)]
                    if sub:
                        # the read of self.index feeding the subtraction must come after the increment
                        okr = any(b.dominates(ib, r) for r in after_swap) if after_swap else read_after(b, somes[0], ib)
                    elif self_field(I, "index"):
                        # the read must precede the increment (and follow the swap): `let best = v[index].ply; index += 1; Some(best)`
                        okr = any(r != ib and r not in b.reachable_from(ib) and b.dominates(r, ib) for r in after_swap) if after_swap else not read_after(b, somes[0], ib)
        ctx.check(okr, "next:returns-slot-at-old-index", "the returned move is scored_moves[index_before_increment].ply (the slot the best move was just swapped into)", b.where(somes[0]),
                  bad_what="the returned element is `%s`, not the slot the selected move was swapped into" % detail)
    # (5) construction is 1:1 and starts at 0
    nb = ctx.body(ORDERER_NEW)
    nsym = ctx.sym(nb)
    r = nsym.local(0)
    ok = r[0] == "agg" and dict(zip(r[4], r[3])).get("index") == ("const", 0, "usize") and dict(zip(r[4], r[3])).get("scored_moves", ("",))[0] == "call" and dict(zip(r[4], r[3]))["scored_moves"][1] == SCORE_MOVES
    ctx.check(ok, "new:index-0-and-all-moves", "MoveOrderer::new starts at index 0 with score_moves(all moves)", nb.where(0), bad_what="MoveOrderer::new builds %s" % expr_str(r)[:200])
    sb_ = ctx.body(SCORE_MOVES)
    chain = [strip_generics(t.get("callee") or "").split("::")[-1] for bi, t in sb_.calls() if "Iterator" in (t.get("callee") or "") or "slice" in (t.get("callee") or "") or "iter" in (t.get("callee") or "")]
    bad = [c for c in chain if c in ("filter", "filter_map", "skip", "take", "step_by", "skip_while", "take_while", "dedup", "rev", "chain", "zip", "flat_map")]
    has = [c for c in chain if c in ("iter", "map", "collect")]
    ctx.check(not bad and sorted(has) == ["collect", "iter", "map"], "score_moves:one-to-one", "score_moves is moves.iter().map(..).collect(): one ScoredPly per input move", sb_.where(0),
              bad_what="score_moves' iterator chain is %s: moves can be dropped or duplicated" % chain)
    for cb in ix.closures_of(SCORE_MOVES):
        csym = mir.Sym(cb, ix)
        v = csym.local(0)
        if v[0] == "agg" and v[1].endswith("ScoredPly"):
            f = dict(zip(v[4], v[3]))
            okp = f.get("ply") is not None and f["ply"][0] == "deref" and f["ply"][1][0] == "arg"
            ctx.functions.add(cb.key)
            ctx.check(okp, "score_moves:ply-unchanged", "each ScoredPly carries the input move unchanged", cb.where(0), bad_what="ScoredPly.ply is built from `%s`" % expr_str(f.get("ply")))
    # (6) nobody else mutates an orderer
    writers = sorted(k for k in ix.bodies if ix.bodies[k].kind in ("fn", "closure") and any(p and p[0] in ("scored_moves", "index") and "MoveOrderer" in ix.bodies[k].locals[1]["ty"] for (p, h) in e.writes(k)) )
    ctx.check(writers == [NEXT], "orderer:writers", "only next() modifies a MoveOrderer", bad_what="MoveOrderer is modified by %s" % writers)


def read_after(b, use_block, inc_block):
    """The Some-block's index read happens after the increment (the increment block dominates the use and precedes it)."""
    return b.dominates(inc_block, use_block)


def range_from_index(sym, e):
    """e = Range::next(&mut iter) where iter = Range{start: self.index + c, end: len(scored_moves)}.into_iter()"""
    if not (isinstance(e, tuple) and e[0] == "call" and "Range<A>>::next" in e[1]):
        return False
    it = e[2][0]
    for x in walk(it):
        if isinstance(x, tuple) and x[0] == "var":
            it = sym.expand_var(x)
    for x in walk(it):
        if isinstance(x, tuple) and x[0] == "agg" and isinstance(x[1], str) and x[1].endswith("ops::Range") and len(x[3]) == 2:
            st, en = x[3]
            start_ok = self_field(st, "index") or (st[0] == "bin" and st[1].startswith("Add") and self_field(st[2], "index") and st[3][0] == "const" and st[3][1] >= 0)
            end_ok = en[0] == "call" and en[1].endswith("Vec::len") and self_field(mir.strip_refs(en[2][0]), "scored_moves")
            return start_ok and end_ok
    return False


def enumerate_skip_from_index(sym, e):
    """e = <Skip<Enumerate<slice::Iter>>>::next(&mut iter) with iter = scored_moves.iter().enumerate().skip(self.index + c):
    the first component of each item is a position in [index + c, len)."""
    if not (isinstance(e, tuple) and e[0] == "call" and isinstance(e[1], str) and e[1].endswith("::next")):
        return False
    it = e[2][0]
    for x in walk(it):
        if isinstance(x, tuple) and x[0] == "var":
            it = sym.expand_var(x)
    it = mir.strip_refs(it)
    if it[0] == "call" and it[1].endswith("IntoIterator>::into_iter"):
        it = it[2][0]
    if not (it[0] == "call" and it[1] == "std::iter::Iterator::skip" and len(it[2]) == 2):
        return False
    inner, st = it[2]
    start_ok = self_field(st, "index") or (st[0] == "bin" and st[1].startswith("Add") and self_field(st[2], "index") and st[3][0] == "const" and st[3][1] >= 0)
    if not (inner[0] == "call" and inner[1] == "std::iter::Iterator::enumerate"):
        return False
    src = inner[2][0]
    if not (src[0] == "call" and src[1] in ("core::slice::<impl [T]>::iter", "core::slice::<impl [T]>::iter_mut")):
        return False
    base = src[2][0]
    while True:
        base = mir.strip_refs(base)
        if base[0] == "call" and base[1].endswith("::deref") and len(base[2]) == 1:
            base = base[2][0]
            continue
        break
    return start_ok and self_field(base, "scored_moves")


def rule_noninterference(ctx):
    """Scores influence only which pending slot is chosen next."""
    ix = ctx.ix
    b = ctx.body(NEXT)
    sym = ctx.sym(b)
    tainted = set()
    changed = True
    while changed:
        changed = False
        for bi, i, s in b.stmts():
            if not mir.is_local(s["lhs"]):
                continue
            l = s["lhs"]["l"]
            if l in tainted:
                continue
            srcs = mir.rv_operands(s["rv"])
            hit = False
            for o in srcs:
                p = op_place(o)
                if p is None:
                    continue
                if "score" in fields_of(p) or (p["l"] in tainted):
                    hit = True
            if hit and s["rv"].get("k") != "binop":
                tainted.add(l)
                changed = True
            elif hit and s["rv"]["op"] not in ("Gt", "Ge", "Lt", "Le", "Eq", "Ne"):
                tainted.add(l)
                changed = True
    bad = []
    for bi, t in b.calls():
        for a in t.get("args", []):
            p = op_place(a)
            if p is not None and p["l"] in tainted:
                bad.append((C.short(t.get("callee", "?")), t["line"]))
    for bi, i, s in b.stmts():
        if s["lhs"]["p"] or (mir.is_local(s["lhs"]) and s["lhs"]["l"] == 0):
            for o in mir.rv_operands(s["rv"]):
                p = op_place(o)
                if p is not None and p["l"] in tainted:
                    bad.append(("store to %s" % mir.pstr(s["lhs"]), s.get("line")))
    if not tainted and not bad:
        # the scores are read only inside the key closure of a selection over the pending range
        keyed = False
        for bi, t in b.calls():
            if (t.get("callee") or "").endswith(SELECTORS) and len(t["args"]) == 2:
                clo = sym.operand(t["args"][1])
                if clo[0] == "closure" and clo[1] in ix.bodies:
                    r = mir.Sym(ix.bodies[clo[1]], ix).local(0)
                    if r[0] == "field" and r[-1] == "score":
                        keyed = True
                        ctx.functions.add(clo[1])
        if keyed:
            ctx.ok("next:scores-only-compared", "scores are read only as the key of the selection over the pending range", b.where(0))
            tainted = None
    if tainted is not None:
      ctx.check(not bad and tainted, "next:scores-only-compared", "values read from .score (%d temporaries) are only compared with each other" % len(tainted), b.where(0),
                bad_what="a score value flows into %s: ordering data can change which moves are returned" % bad)
    sm = ctx.body(SCORE_MOVE)
    ctx.check(sm.locals[0]["ty"] == "u64", "score_move:returns-number", "score_move (killers, cached best move, MVV-LVA) returns only a number", sm.where(0), bad_what="score_move returns %s" % sm.locals[0]["ty"])


def recursive_calls(ix, b, callee):
    return [(bi, t) for bi, t in b.calls() if callee in ix.call_targets(t)]


def neg(e):
    """x if e == x.saturating_neg() else None"""
    if isinstance(e, tuple) and e[0] == "call" and e[1].endswith("saturating_neg") and len(e[2]) == 1:
        return e[2][0]
    return None


def is_beta(e):
    return e in (("var", "beta"), ("const", 32767, "i16"), ("arg", "beta_start"))


def window_kind(a, bb):
    """Classify the (alpha, beta) arguments of a recursive call."""
    nb = neg(bb)
    if nb != ("var", "alpha"):
        return "other"
    na = neg(a)
    if na is not None and is_beta(na):
        return "full"
    # null window: neg(alpha) - 1
    if a[0] == "bin" and a[1].startswith("Sub") and neg(a[2]) == ("var", "alpha") and a[3] == ("const", 1, "i16"):
        return "null"
    return "other"


def rule_windows(ctx):
    ix = ctx.ix
    n = 0
    for key in (C.ALPHA_BETA_START, C.ALPHA_BETA):
        b = ctx.body(key)
        sym = ctx.sym(b)
        calls = recursive_calls(ix, b, C.ALPHA_BETA)
        kinds = []
        where_chosen = {}
        for bi, t in calls:
            # `let lower = if pvs { -alpha - 1 } else { -beta }; search(lower, -alpha)`: one call site, two windows, each
            # chosen in its arm
            bb0, d = sym.operand(t["args"][3]), sym.operand(t["args"][4])
            upper = dict(C.operand_cases(b, sym, bi, t["args"][3]))
            dep_ok = d[0] == "bin" and d[1].startswith("Sub") and d[2] == ("arg", "depth") and d[3] == ("const", 1, "u8")
            if not dep_ok:
                # the helper form: `depth` is the helper's parameter, bound to `depth - 1` at its one call
                dd = mir.strip_copies(d)
                dep_ok = dd[0] == "bin" and dd[1].startswith("Sub") and dd[3] == ("const", 1, "u8")
            for vb, a in C.operand_cases(b, sym, bi, t["args"][2]):
                bb = upper.get(vb, bb0)
                k = window_kind(a, bb)
                n += 1
                kinds.append((bi, k))
                where_chosen[(bi, k)] = vb
                ctx.check(k in ("full", "null") and dep_ok, c_dedup(ctx, "%s:call:%s" % (key, k)), "child searched with the %s window (%s, %s) at depth - 1" % (k, expr_str(a), expr_str(bb)), b.where(bi),
                          bad_what="a child is searched with window (%s, %s) at depth `%s`: not (-beta, -alpha) / (-alpha-1, -alpha) at depth-1" % (expr_str(a), expr_str(bb), expr_str(d)))
            # result negated: the destination flows into saturating_neg before reaching `score`
            dst = t["dest"]["l"]
            negd = any(callee_is(t2, "core::num::<impl i16>::saturating_neg") and op_place(t2["args"][0]) is not None and op_place(t2["args"][0])["l"] == dst for _b2, t2 in b.calls())
            ctx.check(negd, c_dedup(ctx, "%s:result-negated" % key), "the child's result is negated", b.where(bi), bad_what="the result of a recursive call is used without negation")
        ks = sorted(k for _, k in kinds)
        ctx.check(ks in (["full", "full", "null"], ["full", "null"]), "%s:pvs-shape" % key, "one null-window search and the full-window search(es): first search without a PV, re-search after a failed null window", b.where(0),
                  bad_what="recursive call windows are %s" % ks)
        # Whatever the spelling (`if pvs {null; if fail {full}} else {full}`, one first call with the window chosen in an arm, or
        # `if pvs {null; if !fail {return}} full`): the null window is used only once a PV move exists; from the null-window
        # search a full-window search is reached exactly through alpha < score and score < beta; and without a PV move a
        # full-window search happens before the move is taken back.
        fulls = sorted({bi for bi, k in kinds if k == "full"})
        nulls = sorted({bi for bi, k in kinds if k == "null"})
        if len(nulls) == 1 and 1 <= len(fulls) <= 2:
            N = nulls[0]
            cut = {bi for bi, t in b.calls() if callee_is(t, "board::Board::make_move") or "MoveOrderer as std::iter::Iterator>::next" in (t.get("callee") or "")}

            def is_pvs(e):
                return mir.strip_copies(e) in (("var", "pvs"), ("arg", "pvs"))

            def is_score(x):
                # the variable, or (when it is assigned once) what it holds: the negated value of the null-window search
                x = mir.strip_copies(x)
                if x[0] == "var" and x[1].split("#")[0] == "score":
                    return True
                return x[0] == "call" and x[1].endswith("saturating_neg") and len(x[2]) == 1 and mir.strip_copies(x[2][0])[0] == "call" and mir.strip_copies(x[2][0])[1] == C.ALPHA_BETA
            cons_n = C.constraints_for(ix, b, sym, where_chosen[(N, "null")])
            pv1 = any(is_pvs(c[3]) and c[1] == frozenset([True]) for c in cons_n)
            after = b.blocks[N].term.get("target")
            reach_n = b.reachable_from(after, removed=cut, include_start=True) if after is not None else set()
            re = [f for f in fulls if f in reach_n and f != N]
            ok_re = len(re) == 1
            t1 = t2 = False
            if ok_re:
                F = re[0]
                for d in sorted(reach_n):
                    if b.blocks[d].term["k"] != "switch" or F not in b.reachable_from(d, removed=cut):
                        continue
                    sc = C.switch_cond(b, sym, d)
                    if not sc:
                        continue
                    e, inverted = sc
                    if e[0] == "var":
                        # `let failed = alpha < score && score < beta`: the second conjunct is the value of a flag that is
                        # false in the other arm
                        for l in [l for l in range(b.arg_count + 1, len(b.locals)) if b.local_name(l) == e[1] and b.locals[l]["ty"] == "bool"]:
                            ms = C.merged_bool_source(b, sym, {"copy": {"l": l, "p": [], "ty": "bool"}}, allow_named=True)
                            if ms is not None and ms[2] is False:
                                e = ms[1]
                    lt1 = e[0] == "bin" and e[1] == "Lt" and mir.strip_copies(e[2]) == ("var", "alpha") and is_score(e[3])
                    lt2 = e[0] == "bin" and e[1] == "Lt" and is_score(e[2]) and is_beta(e[3])
                    if not (lt1 or lt2):
                        continue
                    f_t, t_t = C.switch_edges(b.blocks[d].term)
                    if inverted:
                        f_t, t_t = t_t, f_t
                    skip = all(F not in b.threaded_reach(x, removed=cut) for x in f_t)
                    goes = any(F in b.threaded_reach(x, removed=cut) for x in t_t)
                    if skip and goes:
                        t1 = t1 or lt1
                        t2 = t2 or lt2
            # without a PV move: a full-window search before the move is taken back
            pvs_true_edges = set()
            for d in range(len(b.blocks)):
                blk = b.blocks[d]
                if blk.cleanup or blk.term["k"] != "switch":
                    continue
                sc = C.switch_cond(b, sym, d)
                if sc and is_pvs(sc[0]):
                    f_t, t_t = C.switch_edges(blk.term)
                    if sc[1]:
                        f_t, t_t = t_t, f_t
                    pvs_true_edges |= {(d, x) for x in t_t}
            full_blocks = set()
            for f in fulls:
                wc = where_chosen.get((f, "full"), f)
                if not any(is_pvs(c[3]) and c[1] == frozenset([True]) for c in C.constraints_for(ix, b, sym, wc)):
                    full_blocks.add(f)
            ends = {bi for bi, t in b.calls() if callee_is(t, "board::Board::unmake_move")}
            makes = [bi for bi, t in b.calls() if callee_is(t, "board::Board::make_move")]
            pv0 = bool(makes) and bool(full_blocks)
            for m in makes:
                start = b.blocks[m].term.get("target")
                got = C.reach_avoiding(b, start, removed_blocks=full_blocks | cut, forbidden_edges=pvs_true_edges) if start is not None else set()
                if got & ends:
                    pv0 = False
            ok = pv1 and ok_re and t1 and t2 and pv0
            ctx.check(ok, "%s:research-condition" % key, "null window only once a PV move exists; re-search with the full window iff alpha < score < beta; without a PV move the first search is full-window", b.where(re[0] if re else N),
                      bad_what="the null-window / re-search structure is broken (null window only under pvs: %s; exactly one re-search after it: %s; reached only through alpha < score: %s and score < beta: %s; "
                               "a full-window search on every way without a PV move: %s)" % (pv1, ok_re, t1, t2, pv0))
        # score's definitions are all negated child results
        sc = [l for l in range(len(b.locals)) if b.local_name(l) == "score"]
        if sc:
            defs = [sym.rvalue(rv) if rv.get("k") != "call" else ("call", strip_generics(mir.callee_name(rv["t"])), ()) for (_db, _di, rv) in b.defs().get(sc[0], [])]
            ok = defs and all(d[0] == "call" and d[1].endswith("saturating_neg") for d in defs)
            ctx.check(ok, "%s:score-is-negated-child-value" % key, "`score` is only ever assigned -child_value (%d sites)" % len(defs), b.where(0), bad_what="`score` is assigned %s" % [expr_str(d)[:50] for d in defs])
    # quiescence
    ab = ctx.body(C.ALPHA_BETA)
    sym = ctx.sym(ab)
    qc = recursive_calls(ix, ab, C.QUIESCENCE)
    ok = len(qc) == 1
    if ok:
        bi, t = qc[0]
        a, bb = sym.operand(t["args"][2]), sym.operand(t["args"][3])
        cons = C.constraints_for(ix, ab, sym, bi)
        at0 = any(c[3][0] == "bin" and c[3][1] == "Eq" and c[3][2] == ("arg", "depth") and c[3][3] == ("const", 0, "u8") and True in c[1] for c in cons)
        direct = mir.is_local(t["dest"]) and t["dest"]["l"] == 0
        ok = a == ("var", "alpha") and bb == ("var", "beta") and at0 and direct
    ctx.check(ok, "%s:quiescence-at-horizon" % C.ALPHA_BETA, "at depth == 0 the node's value is quiescence(alpha, beta), returned as is", ab.where(qc[0][0] if qc else 0),
              bad_what="quiescence is not entered exactly at depth == 0 with the un-negated (alpha, beta) and its value returned directly")
    q = ctx.body(C.QUIESCENCE)
    qsym = ctx.sym(q)
    qq = recursive_calls(ix, q, C.QUIESCENCE)
    ok = len(qq) == 1
    if ok:
        bi, t = qq[0]
        a, bb = qsym.operand(t["args"][2]), qsym.operand(t["args"][3])
        ok = neg(a) in (("var", "beta"), ("arg", "beta_start")) and neg(bb) == ("var", "alpha")
        dst = t["dest"]["l"]
        ok = ok and any(callee_is(t2, "core::num::<impl i16>::saturating_neg") and op_place(t2["args"][0])["l"] == dst for _b2, t2 in q.calls() if t2.get("args") and op_place(t2["args"][0]) is not None)
    ctx.check(ok, "%s:recursion-window" % C.QUIESCENCE, "quiescence recurses with (-beta, -alpha) and negates the result", q.where(qq[0][0] if qq else 0), bad_what="quiescence's recursive call does not use (-beta, -alpha) with a negated result")
    ctx.floor("recursive alpha_beta call sites", n, 4)  # two functions, a null-window and at least one full-window search each


def c_dedup(ctx, key):
    seen = ctx.__dict__.setdefault("_seen11", {})
    n = seen.get(key, 0) + 1
    seen[key] = n
    return key if n == 1 else "%s#%d" % (key, n)


def rule_cut(ctx):
    ix = ctx.ix
    for key in (C.ALPHA_BETA, C.QUIESCENCE):
        b = ctx.body(key)
        sym = ctx.sym(b)
        loop_rets = []
        for bi, i, s in b.stmts():
            if mir.is_local(s["lhs"]) and s["lhs"]["l"] == 0 and b.in_loop_region(bi) if hasattr(b, "in_loop_region") else False:
                pass
        # returns reachable from inside the move loop = blocks assigning _0 whose constraints mention `score` of the loop
        n = 0
        for bi, i, s in b.stmts():
            if not (mir.is_local(s["lhs"]) and s["lhs"]["l"] == 0):
                continue
            cons = C.constraints_for(ix, b, sym, bi)
            cut = [c for c in cons if c[3][0] == "bin" and c[3][1] in ("Ge", "Gt", "Le", "Lt", "Eq", "Ne") and is_beta(c[3][3]) and c[3][2] != ("var", "alpha") and not (c[3][2][0] == "field" and "static" in str(c[3][2]))]
            # a return on the `score < beta` continuation is ordinary flow, not a cut-off
            cut = [c for c in cut if not (c[3][1] in ("Ge", "Gt") and set(c[1]) == {False})]
            if not cut:
                continue
            n += 1
            c = cut[-1]
            v = sym.rvalue(s["rv"])
            ok = c[3][1] in ("Ge", "Gt") and True in c[1] and (is_beta(v) or v == c[3][2])
            ctx.check(ok, c_dedup(ctx, "%s:cutoff" % key), "the early exit is taken on score %s beta and returns %s" % (">=" if c[3][1] == "Ge" else ">", expr_str(v)), b.where(bi),
                      bad_what="the early return of the move loop is controlled by `%s %s %s` (taken on %s) and returns `%s`: a cut-off must fire exactly on score >= beta (or >) and return beta or score"
                      % (expr_str(c[3][2]), c[3][1], expr_str(c[3][3]), sorted(map(str, c[1])), expr_str(v)))
        ctx.check(n >= (1 if key == C.ALPHA_BETA else 2), "%s:has-cutoff" % key, "%s has %d beta cut-off exit(s)" % (C.short(key), n), b.where(0), bad_what="%s has no beta cut-off exit" % C.short(key))
        # alpha raised only from a score that compared greater
        al = [l for l in range(len(b.locals)) if b.local_name(l) == "alpha"]
        for (db, di, rv) in b.defs().get(al[0], []) if al else []:
            v = sym.rvalue(rv) if rv.get("k") != "call" else ("call", strip_generics(mir.callee_name(rv["t"])), tuple(sym.operand(a) for a in rv["t"]["args"]))
            if v in (("arg", "alpha_start"),):
                continue
            if v[0] == "call" and v[1] == "std::cmp::Ord::max":
                continue  # cache probe (C12)
            cons = C.constraints_for(ix, b, sym, db)
            gt = any(c[3][0] == "bin" and c[3][1] == "Gt" and c[3][2] == v and c[3][3] == ("var", "alpha") and True in c[1] for c in cons)
            ctx.check(gt, c_dedup(ctx, "%s:alpha-raised-from-better-score" % key), "alpha = score only under score > alpha", b.where(db),
                      bad_what="alpha is assigned `%s` without the guard `that value > alpha`" % expr_str(v))
        # ... and it *is* raised: inside the move loop a better score becomes the new alpha (without it the node returns the
        # alpha it was given - or its stand-pat - whatever its moves achieve)
        raised = [db for (db, di, rv) in (b.defs().get(al[0], []) if al else []) if b.in_loop(db)]
        ctx.check(len(raised) >= 1, "%s:alpha-is-raised-in-the-move-loop" % key, "inside the move loop a score above alpha becomes the new alpha (%d site(s))" % len(raised), b.where(raised[0] if raised else 0),
                  bad_what="%s never raises alpha inside its move loop: the value it returns ignores what its moves achieve" % C.short(key))


def _ext_before(b, ext_block, q_block):
    """Every way from the function's entry to the quiescence call passes the extension decision: the call is not reachable
    once the in-check test's block is removed, and the depth it tests is read after the extension could have been added."""
    if ext_block is None:
        return False
    # the block deciding the extension = the nearest switch dominating the extension assignment
    doms = [d for d in (b.dom().get(ext_block) or set()) if d != ext_block and b.blocks[d].term["k"] == "switch"]
    if not doms:
        return False
    decide = max(doms, key=lambda d: len(b.dom().get(d) or ()))
    return q_block not in b.reachable_from(0, removed={decide}, include_start=True)


def rule_terminal(ctx):
    ix = ctx.ix
    b = ctx.body(C.ALPHA_BETA)
    sym = ctx.sym(b)
    zero_rets = {}
    for bi, i, s in b.stmts():
        if mir.is_local(s["lhs"]) and s["lhs"]["l"] == 0 and sym.rvalue(s["rv"]) == ("const", 0, "i16"):
            cons = C.constraints_for(ix, b, sym, bi)
            for c in cons:
                txt = c[0]
                if "get_halfmove_clock" in txt and c[3][0] == "bin" and c[3][1] == "Ge" and c[3][3] == ("const", 100, "u16") and True in c[1]:
                    zero_rets["fifty"] = bi
                if "position_reached" in txt and True in c[1]:
                    zero_rets["repetition"] = (bi, c[3])
    ctx.check("fifty" in zero_rets, "alpha_beta:fifty-move-draw", "halfmove_clock >= 100 returns 0", b.where(zero_rets.get("fifty", 0)), bad_what="no `halfmove_clock >= 100 -> 0` exit")
    rep = zero_rets.get("repetition")
    ok = rep is not None and rep[1][0] == "call" and mir.strip_copies(rep[1][2][1])[-2:] == ("board", "zkey")
    ctx.check(ok, "alpha_beta:repetition-draw", "position_reached(current key) returns 0", b.where(rep[0] if rep else 0), bad_what="no `position_reached(self.board.zkey) -> 0` exit")
    if ok:
        # asked of the board the tree is walked on (its record grows with every move made in the tree), not of the root copy
        recv = mir.strip_copies(mir.strip_refs(rep[1][2][0]))
        same = recv[0] == "field" and recv[-1] == "board" and mir.strip_copies(rep[1][2][1])[:-1] == recv
        ctx.check(same, "alpha_beta:repetition-on-the-walked-board", "the repetition test asks the walked board about its own key: self.board.position_reached(self.board.zkey)", b.where(rep[0]),
                  bad_what="the repetition test is `%s`: it asks another board than the one whose key it passes (the root copy does not know the positions reached inside the tree)" % expr_str(rep[1])[:120])
    # ... and the fifty-move test reads the walked board's clock
    if "fifty" in zero_rets:
        fc = [c for c in C.constraints_for(ix, b, sym, zero_rets["fifty"]) if "get_halfmove_clock" in c[0]]
        on_walked = any(any(isinstance(x, tuple) and x[0] == "call" and x[1] == "board::Board::get_halfmove_clock" and mir.strip_copies(mir.strip_refs(x[2][0]))[-1:] == ("board",) for x in walk(c[3])) for c in fc)
        ctx.check(on_walked, "alpha_beta:fifty-on-the-walked-board", "the fifty-move test reads self.board's clock", b.where(zero_rets["fifty"]),
                  bad_what="the fifty-move test does not read the clock of the board the tree is walked on")
    # "iff": nothing else decides these two draws
    for name, blk in (("fifty", zero_rets.get("fifty")), ("repetition", rep[0] if rep else None)):
        if blk is None:
            continue
        extra = []
        for c in C.constraints_for(ix, b, sym, blk):
            e = c[3]
            if e[0] == "call" and (C.predicate_polarity(ix, e, "running") is not None or C.predicate_polarity(ix, e, "limits") is not None):
                continue
            if "get_halfmove_clock" in c[0] and e[0] == "bin" and e[1] == "Ge" and e[3] == ("const", 100, "u16"):
                continue
            if name == "repetition" and e[0] == "call" and e[1] == "board::Board::position_reached":
                continue
            if name == "fifty" and e[0] == "call" and e[1] == "board::Board::position_reached" and c[1] == frozenset([False]):
                continue    # the other draw was tested first and did not apply: both answer 0, their order is immaterial
            extra.append((c[0][:70], sorted(map(str, c[1]))))
        ctx.check(not extra, "alpha_beta:%s-draw-unconditional" % name, "the %s draw depends on nothing else" % name, b.where(blk),
                  bad_what="the %s draw is additionally conditioned on %s: positions the reference game scores as an immediate draw are searched on" % (name, extra))
    # draw tests come before the cache probe (a cached score must not override a draw by history)
    probes = [bi for bi, t in b.calls() if callee_is(t, "std::collections::HashMap::get")]
    if rep and probes and "fifty" in zero_rets:
        ok = all(b.dominates(guard_block_of(b, zero_rets["fifty"]), p) and b.dominates(guard_block_of(b, rep[0]), p) for p in probes)
        ctx.check(ok, "alpha_beta:draws-before-probe", "the history-dependent draw tests dominate the cache probe", b.where(probes[0]), bad_what="the cache is probed before the fifty-move / repetition tests: a history-independent cached score can replace a draw")
    # check extension
    ext = []
    for bi, i, s in b.stmts():
        if mir.is_local(s["lhs"]) and 1 <= s["lhs"]["l"] <= b.arg_count and b.local_name(s["lhs"]["l"]) == "depth":
            v = sym.rvalue(s["rv"])
            cons = C.constraints_for(ix, b, sym, bi)
            chk = [c for c in cons if c[3][0] == "call" and c[3][1] == "board::Board::is_in_check" and "current_turn" in c[0] and True in c[1]]
            # "exactly when": besides what every path through this point shares, being in check is the only condition
            # (the first block behind the extension that every path reaches again: nearest post-dominator of the test)
            test_blocks = [c[2] for c in chk]
            join = None
            if test_blocks:
                pd = b.pdom().get(test_blocks[0]) or set()
                cands = [x for x in pd if x >= 0 and x != test_blocks[0] and x != bi]
                # the nearest: the one all the others post-dominate... i.e. that is post-dominated by every other candidate
                for x in cands:
                    if all(y == x or b.postdominates(y, x) for y in cands):
                        join = x
            shared = C.constraints_for(ix, b, sym, join) if join is not None else []
            own = [c for c in cons if not any(c[0] == o[0] and c[1] == o[1] for o in shared)]
            only = [c for c in own if not (c[3][0] == "call" and c[3][1] == "board::Board::is_in_check")]
            ext.append((bi, any(isinstance(x, tuple) and x[0] == "bin" and x[1].startswith("Add") and x[3] == ("const", 1, "u8") for x in walk(v)), bool(chk) and not only))
    # ... and the extension is decided before the horizon test: a node in check at depth 0 is searched one ply deeper, it
    # does not drop into quiescence (which would score a checkmate delivered on the last ply by material)
    qcalls = [bi for bi, t in b.calls() if callee_is(t, C.QUIESCENCE)]
    ctx.check(bool(qcalls) and bool(ext) and all(_ext_before(b, ext[0][0] if ext else None, qb) for qb in qcalls),
              "alpha_beta:extension-before-horizon", "the check extension is applied before `depth == 0` sends the node to quiescence", b.where(qcalls[0] if qcalls else 0),
              bad_what="the node can drop into quiescence before the check extension is applied: a side in check at the horizon (a mate delivered on the last ply) is scored statically")
    ctx.check(len(ext) == 1 and ext[0][1] and ext[0][2], "alpha_beta:check-extension", "depth += 1 exactly when the side to move is in check", b.where(ext[0][0] if ext else 0),
              bad_what="check extension sites: %s (expected one `depth += 1` under is_in_check(current_turn))" % ext)
    from . import c12
    sub = engine.Ctx(ctx.prop, ix, ctx.config)
    sub.cur_rule = ctx.cur_rule
    c12.rule_store(sub)
    ctx.insts.extend(i for i in sub.insts if "mate-score" in i.key or "stalemate-score" in i.key)
    # quiescence: captures only, stand pat
    q = ctx.body(C.QUIESCENCE)
    qsym = ctx.sym(q)
    gen = [(bi, t) for bi, t in q.calls() if callee_is(t, "board::Board::get_filtered_moves", "board::Board::get_all_moves", "board::Board::get_legal_moves")]
    ok = len(gen) == 1 and callee_is(gen[0][1], "board::Board::get_filtered_moves")
    if ok:
        pe = qsym.operand(gen[0][1]["args"][1])
        ok = any(isinstance(x, tuple) and x[0] == "fn" and x[1] == "board::ply::Ply::is_capture" for x in walk(pe))
    if ok:
        # ... and get_filtered_moves does filter: all pseudo-legal moves, retained by the predicate it was given
        fb = ctx.body("board::Board::get_filtered_moves")
        fsym = ctx.sym(fb)
        rets = [(bi, t) for bi, t in fb.calls() if callee_is(t, "std::vec::Vec::retain", "std::vec::Vec::<T, A>::retain")]
        src = [(bi, t) for bi, t in fb.calls() if callee_is(t, "board::Board::get_all_moves")]
        pred = [fb.local_name(l) for l in range(1, fb.arg_count + 1) if "fn(" in fb.locals[l]["ty"]]
        okf = len(rets) == 1 and len(src) == 1 and len(pred) == 1 and mir.strip_copies(fsym.operand(rets[0][1]["args"][1])) == ("arg", pred[0]) \
            and mir.strip_refs(fsym.operand(rets[0][1]["args"][0])) == mir.strip_copies(fsym.local(0)) and fb.dominates(src[0][0], rets[0][0])
        ctx.check(okf, "get_filtered_moves:retains-by-the-predicate", "get_filtered_moves = get_all_moves() retained by the predicate argument", fb.where(0),
                  bad_what="get_filtered_moves does not retain its move list by the predicate it is given: quiescence then searches moves that are not captures")
    ctx.check(ok, "quiescence:captures-only", "quiescence considers exactly the moves with Ply::is_capture", q.where(gen[0][0] if gen else 0), bad_what="quiescence's move list is not get_filtered_moves(Ply::is_capture)")
    ev = [(bi, t) for bi, t in q.calls() if (t.get("decl") or "").endswith("Evaluator::evaluate")]
    ctx.check(len(ev) == 1 and not q.in_loop(ev[0][0]), "quiescence:stand-pat", "one static evaluation per quiescence node, before the capture loop", q.where(ev[0][0] if ev else 0), bad_what="quiescence has %d evaluate calls" % len(ev))
    if len(ev) == 1:
        a = mir.strip_refs(qsym.operand(ev[0][1]["args"][1]))
        ctx.check(a[0] == "field" and a[-1] == "board" and mir.strip_refs(a[1]) == ("arg", "self"), "quiescence:evaluates-current-node", "the static evaluation is of self.board (the node being searched, from its side to move)", q.where(ev[0][0]),
                  bad_what="quiescence evaluates `%s`, not the node's own board" % expr_str(a))
        # stand pat: score >= beta -> beta ; score > alpha -> alpha = score, before generating captures
        gen_b = gen[0][0] if gen else None
        ctx.check(gen_b is not None and q.dominates(ev[0][0], gen_b), "quiescence:stand-pat-before-captures", "stand-pat is evaluated before the capture list is generated", q.where(ev[0][0]), bad_what="evaluation does not precede capture generation")
    cap = ctx.body("board::ply::Ply::is_capture")
    csym = ctx.sym(cap)
    v = csym.local(0)
    ctx.check(v[0] == "call" and v[1].endswith("Option::is_some") and "captured_piece" in expr_str(v), "Ply::is_capture", "is_capture == captured_piece.is_some()", cap.where(0), bad_what="Ply::is_capture is `%s`" % expr_str(v))


def guard_block_of(b, ret_block):
    """The switch block deciding a return block (its immediate dominating switch)."""
    for d in sorted(b.dom()[ret_block], reverse=True):
        if d != ret_block and b.blocks[d].term["k"] == "switch":
            return d
    return ret_block


def rule_root_result(ctx):
    """A root search that ran to completion records its result: in alpha_beta_start every path to a return either had no
    move to search, was cut by an abort test, or passes the store of (best_score, best_move) that iter_deep reports.  A
    shortcut that returns a move without recording it makes the engine fall back to an arbitrary legal move."""
    ix = ctx.ix
    b = ctx.body(C.ALPHA_BETA_START)
    sym = ctx.sym(b)
    stores = {bi for bi, i, s in b.stmts() if fields_of(s["lhs"])[-2:] == ("info", "best_move")}
    score_stores = {bi for bi, i, s in b.stmts() if fields_of(s["lhs"])[-2:] == ("info", "best_score")}
    ctx.check(bool(stores) and stores == score_stores, "%s:score-and-move-stored-together" % C.ALPHA_BETA_START, "best_score and best_move are stored in the same blocks", b.where(min(stores) if stores else 0),
              bad_what="best_move is stored in blocks %s, best_score in %s" % (sorted(stores), sorted(score_stores)))
    forbidden = set(C.abort_edges(ix, b))
    nomove = set()
    for blk in b.blocks:
        if blk.cleanup or blk.term["k"] != "switch":
            continue
        sc = C.switch_cond(b, sym, blk.idx)
        if sc is None:
            continue
        e, neg = sc
        f, tr = C.switch_edges(blk.term)
        if e[0] == "call" and e[1].endswith("Vec::is_empty") and "get_all_moves" in expr_str(e):
            nomove |= {(blk.idx, t) for t in (f if neg else tr)}
        if e[0] == "bin" and e[1] == "Eq" and e[2] == ("var", "total_legal_moves") and e[3][:2] == ("const", 0):
            nomove |= {(blk.idx, t) for t in (f if neg else tr)}
    ctx.check(len(nomove) >= 2, "%s:no-move-exits" % C.ALPHA_BETA_START, "the two `nothing to search` exits (no pseudo-legal move, no legal move) are recognised", b.where(0),
              bad_what="cannot find the `moves.is_empty()` / `total_legal_moves == 0` exits")
    reach = C.reach_avoiding(b, 0, removed_blocks=stores, forbidden_edges=forbidden | nomove)
    ctx.check(mir.EXIT not in reach, "%s:completed-search-records-its-result" % C.ALPHA_BETA_START,
              "every return of alpha_beta_start that is not an abort or a position without moves passes the store of (best_score, best_move)", b.where(0),
              bad_what="alpha_beta_start can return from a completed iteration without recording (best_score, best_move): iter_deep then reports the previous iteration's move or an arbitrary legal move")


def classify_exit(ix, b, sym, bi, v, aborts):
    """Which exit of the reference game a `return <v>` in block bi is; None when it is none of them."""
    cons = C.constraints_for(ix, b, sym, bi)
    txt = expr_str(v)
    # abort dummy: on the abort edge of a running / limits test
    for c in cons:
        e = c[3]
        if e[0] == "call":
            for kind in ("running", "limits"):
                pol = C.predicate_polarity(ix, e, kind)
                if pol is not None and set(c[1]) == {pol}:
                    return "abort"
    if aborts and bi not in C.reach_avoiding(b, 0, forbidden_edges=aborts):
        return "abort"  # reachable only through the abort edge of a running / limits test
    if v == ("const", 0, "i16"):
        for c in cons:
            if "get_halfmove_clock" in c[0] and True in c[1]:
                return "fifty-move draw"
            if "position_reached" in c[0] and True in c[1]:
                return "repetition draw"
            if c[3][0] == "bin" and c[3][1] == "Eq" and c[3][2] == ("var", "total_legal_moves") and True in c[1]:
                return "stalemate"
    if any(c[3][0] == "bin" and c[3][1] == "Eq" and c[3][2] == ("var", "total_legal_moves") and True in c[1] for c in cons):
        if "is_in_check" in " ".join(c[0] for c in cons) and "MIN" not in txt and ("-32768" in txt or "i16::MIN" in txt or "Add" in txt):
            return "mate score"
        if v[0] == "agg" or "default" in txt.lower():
            return "no move"
    if any("Vec::is_empty" in c[0] and True in c[1] for c in cons):
        return "no move"
    # cache hit: under the probe's Some arm and the depth test
    if any(("HashMap::get" in c[0] or "HashMap" in c[0]) and "Some" in c[1] for c in cons):
        if "entry" in txt or "score" in txt or v in (("var", "alpha"), ("var", "beta")) or "(HashMap" in txt or "as Some" in txt:
            return "cache"
    if v[0] == "call" and v[1] == C.QUIESCENCE:
        # at the horizon and nowhere else: the only condition is depth == 0 (after the draw tests and the cache probe)
        at_horizon = any(c[3][0] == "bin" and c[3][1] == "Eq" and c[3][2] == ("arg", "depth") and c[3][3][:2] == ("const", 0) and set(c[1]) == {True} for c in cons)
        return "quiescence at the horizon" if at_horizon else None
    if v[0] == "call" and v[1].endswith("Default>::default") and any(("Vec::is_empty" in c[0] or (c[3][0] == "bin" and c[3][2] == ("var", "total_legal_moves"))) and True in c[1] for c in cons):
        return "no move"
    # beta cut-off: return beta / score under score >= beta
    for c in cons:
        e = c[3]
        if e[0] == "bin" and e[1] in ("Ge", "Gt") and is_beta(e[3]) and set(c[1]) == {True} and (is_beta(v) or v == e[2]):
            # the value compared with beta is a search / evaluation result of this node
            lhs = e[2]
            if lhs[0] == "var" and lhs[1].split("#")[0] == "score" or (lhs[0] == "call" and ("evaluate" in lhs[1] or "saturating_neg" in lhs[1])):
                return "beta cut-off"
    return None


def rule_exits(ctx):
    """The search has exactly the exits of the reference game: abort, the two draws, a cache hit, quiescence at the
    horizon, beta cut-off, mate / stalemate, and the final value -- no other early return (forward pruning), and no move of the
    ordered list is skipped except an illegal one."""
    ix = ctx.ix
    for key in (C.ALPHA_BETA, C.QUIESCENCE, C.ALPHA_BETA_START):
        b = ctx.body(key)
        sym = ctx.sym(b)
        aborts = C.abort_edges(ix, b)
        rets = [bx.idx for bx in b.blocks if not bx.cleanup and bx.term["k"] == "return" and bx.idx in b.live_blocks()]
        final = None
        unknown = []
        kinds = {}
        ret_sites = [(bi, sym.rvalue(st["rv"]), st.get("line")) for bi, i, st in b.stmts() if mir.is_local(st["lhs"]) and st["lhs"]["l"] == 0]
        for bi, t in b.calls():
            if t["k"] == "call" and mir.is_local(t["dest"]) and t["dest"]["l"] == 0:
                # `return f(..)`: the value is the call; the exit is decided where the call's result arrives
                # (when the continuation is a join shared with other exits, the call's own block is where this exit is decided)
                tgt = t.get("target")
                site = tgt if tgt is not None and len(b.pred(tgt)) == 1 else bi
                ret_sites.append((site, ("call", strip_generics(mir.callee_name(t)), tuple(sym.operand(a) for a in t["args"])), t.get("line")))
        for bi, v, line in ret_sites:
            st = {"line": line}
            k = classify_exit(ix, b, sym, bi, v, aborts)
            if k is None:
                # the final value: returned after the move loop has ended (the iterator's None edge), nothing else deciding
                cons = C.constraints_for(ix, b, sym, bi)
                after_loop = any("Iterator>::next" in c[0] and "None" in c[1] for c in cons)
                rest = [c for c in cons if not ("Iterator>::next" in c[0]) and not ("Vec::is_empty" in c[0]) and not (c[3][0] == "bin" and c[3][2] == ("var", "total_legal_moves"))
                        and not (c[3][0] == "call" and (C.predicate_polarity(ix, c[3], "running") is not None or C.predicate_polarity(ix, c[3], "limits") is not None))
                        and not ("get_halfmove_clock" in c[0] or "position_reached" in c[0] or "HashMap" in c[0] or "is_in_check" in c[0])
                        and not (c[3][0] == "bin" and c[3][2] == ("arg", "depth")) and not (c[3][0] == "bin" and c[3][1] in ("Ge", "Gt", "Lt", "Le") and "entry" in c[0])
                        and not (c[0].startswith("discr(") and "bound" in c[0])
                        and not (c[3][0] == "bin" and c[3][1] in ("Ge", "Gt") and is_beta(c[3][3]) and set(c[1]) == {False})]
                if after_loop and not rest and (v in (("var", "alpha"), ("var", "best_ply")) or key == C.ALPHA_BETA_START):
                    k = "final value"
            if k is None:
                unknown.append((b.blocks[bi].term.get("line") or st.get("line"), expr_str(v)[:50]))
            else:
                kinds[k] = kinds.get(k, 0) + 1
        ctx.check(not unknown, "%s:exit-inventory" % key, "every return of %s is an exit of the reference game (%s)" % (C.short(key), ", ".join("%s x%d" % kv for kv in sorted(kinds.items()))), b.where(0),
                  bad_what="%s has exit(s) the reference game does not have (line, value): %s -- a node abandoned on any other ground (forward pruning, a shortcut) changes the value the search arrives at" % (C.short(key), unknown[:4]))
        # no move skipped: from the orderer's Some edge the next call of next() is reached only through the illegal-move edge or a recursive search
        nexts = [bi for bi, t in b.calls() if "MoveOrderer as std::iter::Iterator>::next" in (t.get("callee") or "")]
        if len(nexts) != 1:
            ctx.bad("%s:one-move-loop" % key, "%d MoveOrderer::next sites in %s" % (len(nexts), C.short(key)), b.where(0))
            continue
        nb = nexts[0]
        searched = {bi for bi, t in recursive_calls(ix, b, C.ALPHA_BETA)} | {bi for bi, t in b.calls() if C.QUIESCENCE in ix.call_targets(t) and key == C.QUIESCENCE}
        illegal = set()
        for blk in b.blocks:
            if blk.cleanup or blk.term["k"] != "switch":
                continue
            sc = C.switch_cond(b, sym, blk.idx)
            if sc is None:
                continue
            e, neg = sc
            if e[0] == "call" and e[1] in ("std::result::Result::is_err", "std::result::Result::is_ok") and "is_legal_move" in expr_str(e):
                f, tr = C.switch_edges(blk.term)
                bad_edge = tr if (e[1].endswith("is_err") != neg) else f
                illegal |= {(blk.idx, t) for t in bad_edge}
            if e[0] == "discr" and "is_legal_move" in expr_str(e):
                illegal |= {(blk.idx, a[1]) for a in blk.term["arms"] if a[0] == 1}
        start = b.blocks[nb].term["target"]
        reach = C.reach_avoiding(b, start, removed_blocks=searched, forbidden_edges=illegal)
        ctx.check(nb not in reach, "%s:no-move-skipped" % key, "every legal move the orderer yields is searched before the next one is taken", b.where(nb),
                  bad_what="%s can take the next move without having searched the current one on a ground other than illegality (late-move / futility pruning of moves)" % C.short(key))


def _counter_step(b, sym, s):
    """+1 / -1 when statement s is `self.info.depth = self.info.depth +/- 1`; 'other' for any other store into it; None else."""
    fp = fields_of(s["lhs"])
    if fp[-2:] != ("info", "depth"):
        return None
    v = sym.rvalue(s["rv"])
    if v[0] == "bin" and v[1].replace("WithOverflow", "").replace("Unchecked", "") in ("Add", "Sub") and v[3][:2] == ("const", 1):
        a = mir.strip_copies(v[2])
        if a[0] == "field" and a[-2:] == ("info", "depth"):
            return 1 if v[1].startswith("Add") else -1
    return "other"


def rule_ply_counter(ctx):
    """`info.depth` is the distance from the root at every node: it goes up by one exactly around each search of a child
    (after the move is made, back down before the move is taken back) and is the same on every way to a point.  Mate scores
    (`MIN + info.depth`), killer slots and seldepth all read it."""
    ix = ctx.ix
    n_calls = 0
    for key in (C.ALPHA_BETA_START, C.ALPHA_BETA, C.QUIESCENCE):
        b = ctx.body(key)
        sym = ctx.sym(b)
        # per block: what happens to (counter, moves on the board) inside it, in order
        steps = {}
        odd = []
        for blk in b.blocks:
            if blk.cleanup:
                continue
            ev = []
            for s in blk.stmts:
                st = _counter_step(b, sym, s)
                if st == "other":
                    odd.append(blk.idx)
                elif st is not None:
                    ev.append(("c", st))
            t = blk.term
            if t["k"] == "call":
                if callee_is(t, "board::Board::make_move"):
                    ev.append(("b", 1))
                elif callee_is(t, "board::Board::unmake_move"):
                    ev.append(("b", -1))
                elif any(k in (C.ALPHA_BETA, C.QUIESCENCE) for k in ix.call_targets(t)):
                    ev.append(("search", blk.idx))
            steps[blk.idx] = ev
        ctx.check(not odd, "%s:counter-only-stepped" % key, "%s changes info.depth only by +1 / -1" % C.short(key), b.where(odd[0] if odd else 0),
                  bad_what="%s stores something other than info.depth +/- 1 into info.depth" % C.short(key))
        # forward propagation of (counter delta, board delta) from entry
        state = {0: {(0, 0)}}
        work = [0]
        at_call = {}
        at_ret = {}
        blown = False
        while work and not blown:
            bi = work.pop()
            for (c, m) in list(state[bi]):
                for kind, v in steps.get(bi, []):
                    if kind == "c":
                        c += v
                    elif kind == "b":
                        m += v
                    else:
                        at_call.setdefault(v, set()).add((c, m))
                if b.blocks[bi].term["k"] == "return":
                    at_ret.setdefault(bi, set()).add((c, m))
                for sx in b.succ(bi):
                    if sx < 0 or b.blocks[sx].cleanup:
                        continue
                    if (c, m) not in state.setdefault(sx, set()):
                        if len(state[sx]) > 6 or abs(c) > 4 or abs(m) > 4:
                            blown = True
                            break
                        state[sx].add((c, m))
                        work.append(sx)
        ctx.check(not blown, "%s:counter-bounded" % key, "the ply counter and the moves on the board stay within a fixed distance of their values at entry", b.where(0),
                  bad_what="%s: the ply counter (or the number of moves made) drifts around a loop: it is not restored on every way round" % C.short(key))
        if blown:
            continue
        for bi, sts in sorted(at_call.items()):
            n_calls += 1
            bad = sorted(x for x in sts if x[0] != x[1])
            ctx.check(not bad, "%s:child-search-one-ply-down:%d" % (key, sorted(at_call).index(bi)),
                      "a recursive search runs with info.depth raised by the number of moves made since entry (%s)" % sorted(sts), b.where(bi),
                      bad_what="a recursive search at line %s runs with (counter raised by, moves made since entry) = %s: the subtree's ply counter is off, so mate distances, killer slots and seldepth are those of another ply"
                      % (b.blocks[bi].term.get("line"), bad))
        badr = sorted({x for sts in at_ret.values() for x in sts if x[0] != 0})
        ctx.check(not badr, "%s:counter-restored-at-return" % key, "%s returns with info.depth as it found it" % C.short(key), b.where(0),
                  bad_what="%s can return with info.depth changed by %s: every later node of the search is numbered wrongly" % (C.short(key), [x[0] for x in badr]))
    ctx.floor("recursive search calls", n_calls, 6)
    # nobody else steps the counter
    writers = set()
    for fb in ix.fn_bodies():
        fsym = None
        for bi, i, s in fb.stmts():
            if fields_of(s["lhs"])[-2:] == ("info", "depth"):
                writers.add(fb.key)
    allowed = {C.ALPHA_BETA_START, C.ALPHA_BETA, C.QUIESCENCE}
    extra = sorted(w for w in writers if w not in allowed and (ix.bodies[w].parent or w) not in allowed)
    ctx.check(not extra, "counter-writers", "info.depth is written only by the three search functions", None,
              bad_what="info.depth is also written by %s" % extra)



def rule_move_counter(ctx):
    """"No legal move" (mate / stalemate at an interior node, the null answer at the root) is told by a counter: it starts at 0
    before the move loop and goes up by one for every move that passed the legality test."""
    ix = ctx.ix
    for key in (C.ALPHA_BETA_START, C.ALPHA_BETA):
        b = ctx.body(key)
        sym = ctx.sym(b)
        tested = set()
        for blk in b.blocks:
            if blk.cleanup or blk.term["k"] != "switch" or blk.idx not in b.live_blocks() or b.in_loop(blk.idx):
                continue
            e = mir.strip_copies(sym.operand(blk.term["discr"]))
            if e[0] == "bin" and e[1] in ("Eq", "Ne", "Gt") and e[3] == ("const", 0, e[3][2] if len(e[3]) > 2 else None) and mir.strip_copies(e[2])[0] == "var":
                tested.add(mir.strip_copies(e[2])[1])
        cands = []
        for name in sorted(tested):
            ls = [l for l in range(len(b.locals)) if b.local_name(l) == name]
            if len(ls) != 1:
                continue
            ds = b.defs().get(ls[0], [])
            inits = [d for d in ds if not b.in_loop(d[0])]
            incs = [d for d in ds if b.in_loop(d[0])]
            if not incs:
                continue
            init_ok = len(inits) == 1 and inits[0][2].get("k") == "use" and mir.const_int(inits[0][2]["a"]) == 0
            inc_ok = True
            for (db, di, rv) in incs:
                v = mir.strip_copies(sym.rvalue(rv)) if rv.get("k") not in ("call", "partial") else ("?",)
                step = v[0] == "bin" and v[1].startswith("Add") and mir.strip_copies(v[2]) == ("var", name) and v[3][0] == "const" and v[3][1] == 1
                legal = any(c[3][0] == "call" and c[3][1] in ("std::result::Result::is_err", "std::result::Result::is_ok") and "is_legal_move" in c[0] for c in C.constraints_for(ix, b, sym, db))
                inc_ok = inc_ok and step and legal
            cands.append((name, init_ok, inc_ok, len(incs)))
        ok = len(cands) == 1 and cands[0][1] and cands[0][2] and cands[0][3] == 1
        ctx.check(ok, "%s:legal-move-counter" % key, "the counter tested against 0 after the move loop starts at 0 and is raised by 1 exactly for the moves that passed is_legal_move", b.where(0),
                  bad_what="in %s the `no legal move` test reads a counter that does not start at 0 / is not raised once per legal move (%s): checkmate and stalemate are not recognised, or are seen where there is none" % (C.short(key), cands))


def rule_legal_children(ctx):
    """The look-ahead game is played with legal moves only: in the tree walk (root, interior, quiescence) every move that is
    made was tested with is_legal_move on the same board and passed."""
    ix = ctx.ix
    n = 0
    for key in (C.ALPHA_BETA_START, C.ALPHA_BETA, C.QUIESCENCE):
        b = ctx.body(key)
        sym = ctx.sym(b)
        for bi, t in b.calls():
            if not callee_is(t, "board::Board::make_move"):
                continue
            n += 1
            mv = mir.strip_copies(sym.operand(t["args"][1]))
            board = mir.strip_refs(sym.operand(t["args"][0]))
            ok = False
            for c in C.constraints_for(ix, b, sym, bi):
                e = c[3]
                inner = None
                if e[0] == "call" and e[1] == "std::result::Result::is_err" and c[1] == frozenset([False]):
                    inner = mir.strip_copies(mir.strip_refs(e[2][0]))
                elif e[0] == "call" and e[1] == "std::result::Result::is_ok" and c[1] == frozenset([True]):
                    inner = mir.strip_copies(mir.strip_refs(e[2][0]))
                elif e[0] == "discr" and c[1] == frozenset(["Ok"]):
                    inner = mir.strip_copies(mir.strip_refs(e[1]))
                if inner is not None and inner[0] == "call" and inner[1] == "board::Board::is_legal_move" and len(inner[2]) == 2 \
                        and mir.strip_copies(inner[2][1]) == mv and mir.strip_refs(inner[2][0]) == board:
                    ok = True
            ctx.check(ok, "%s:made-move-passed-is_legal_move" % key, "the move made in %s passed is_legal_move on the same board" % C.short(key), b.where(bi),
                      bad_what="%s makes a move that was not tested with is_legal_move (pseudo-legal moves - a pinned piece capturing, a king stepping into check - enter the look-ahead game)" % C.short(key))
    ctx.floor("moves made in the tree walk", n, 3)


RULES = [("legal-children", rule_legal_children), ("move-counter", rule_move_counter), ("exits", rule_exits), ("ply-counter", rule_ply_counter), ("root-result", rule_root_result), ("permutation", rule_permutation), ("noninterference", rule_noninterference), ("windows", rule_windows), ("cut", rule_cut), ("terminal", rule_terminal)]
# the two immediate draws of the reference game read the half-move clock and the list of earlier positions: what they read is
# what the rules of chess say (C03: clock table, accessors, the record of earlier positions)
# keys stand for positions only as far as comparing two keys compares the whole word (C05.key-identity)
RULES += engine.premise_rules("c05", ["key-identity"])
# the search walks a copy of the board: the copy is the same position (C04.clone)
RULES += engine.premise_rules("c04", ["clone"])
RULES += engine.premise_rules("c03", ["clock", "accessors", "history-record"])


def run(tier):
    return engine.main(
        PROP, "pruning and ordering are pure optimisations", RULES, "other",
        explanation=("Equality of the root score with the minimax value of the reference game is a statement about run-time values and is NOT decided. Decided are the structural features that the statement uses to "
                     "define the reference game and that make alpha-beta/PVS/ordering value-preserving: the move orderer is a permutation of its input (None iff exhausted, swap confined to the pending part, "
                     "index advanced once per yielded slot, 1:1 construction) and ordering data flow only into score comparisons; every recursive call uses (-beta,-alpha) or the null window (-alpha-1,-alpha) at "
                     "depth-1 with the result negated, re-searching iff alpha < score < beta; cut-offs fire exactly on score >= beta; alpha is raised only from a better score; terminal rules (mate = MIN + ply, "
                     "stalemate 0, fifty-move and repetition draws before the cache probe, check extension, capture-only quiescence with stand-pat) are as the statement says; the ply counter is raised by one "
                     "exactly around each child search (pair propagation of counter steps and make/unmake); the PVS structure is decided as a path property, whatever its spelling."),
        assumptions=["the shape rules are specific to fail-hard negamax with PVS; an equivalent but different formulation is reported as cannot-decide"],
        tier=tier)
