"""Rule engine: runs the rule set of one property, applies the verdict policy (DESIGN 2.3), compares
with known_findings.jsonl, writes evidence/<ID>.json and prints the interface lines."""
import json
import os
import sys
import time
import traceback

from . import facts as factsmod
from . import mir

VERIF = factsmod.VERIF
EVIDENCE_DIR = os.environ.get("VERIF_EVIDENCE_DIR") or os.path.join(VERIF, "evidence")
KNOWN = os.path.join(VERIF, "known_findings.jsonl")


class Inst:
    """One rule instance (an obligation): ok / violated, with a stable key."""

    def __init__(self, rule, key, ok, what, where="", detail=None, nontrivial=True, note=False):
        self.rule = rule
        self.key = key
        self.ok = ok
        self.what = what
        self.where = where
        self.detail = detail
        self.nontrivial = nontrivial
        self.note = note  # an observation, never a verdict

    def to_json(self):
        d = {"rule": self.rule, "key": self.key, "verdict": "note" if self.note else ("ok" if self.ok else "VIOLATION"),
             "what": self.what, "where": self.where}
        if self.detail is not None:
            d["detail"] = self.detail
        return d


class Ctx:
    """What a rule sees: the index of one configuration, and a collector."""

    def __init__(self, prop, ix, config):
        self.prop = prop
        self.ix = ix
        self.config = config
        self.insts = []
        self.functions = set()
        self.cur_rule = None

    def body(self, key):
        b = self.ix.body(key)
        self.functions.add(key)
        return b

    def sym(self, body):
        return mir.Sym(body, self.ix)

    def ok(self, key, what, where="", detail=None, nontrivial=True):
        self.insts.append(Inst(self.cur_rule, "%s:%s:%s" % (self.prop, self.cur_rule, key), True, what, where, detail, nontrivial))

    def bad(self, key, what, where="", detail=None):
        self.insts.append(Inst(self.cur_rule, "%s:%s:%s" % (self.prop, self.cur_rule, key), False, what, where, detail))

    def check(self, cond, key, what, where="", detail=None, bad_what=None):
        if cond:
            self.ok(key, what, where, detail)
        else:
            self.bad(key, bad_what or ("NOT: " + what), where, detail)
        return cond

    def note(self, key, what, where="", detail=None):
        self.insts.append(Inst(self.cur_rule, "%s:%s:%s" % (self.prop, self.cur_rule, key), True, what, where, detail, nontrivial=False, note=True))

    def floor(self, name, count, floor):
        """Fail closed when a rule matched fewer sites than were counted by hand on the pinned tree."""
        self.check(count >= floor, "floor:%s" % name, "%s: %d instance(s) found, floor %d" % (name, count, floor),
                   bad_what="%s: only %d instance(s) found, below the floor %d counted by hand: the rule would pass vacuously" % (name, count, floor))


def run_rules(prop, rules, ix, config):
    ctx = Ctx(prop, ix, config)
    for name, fn in rules:
        ctx.cur_rule = name
        n0 = len(ctx.insts)
        try:
            fn(ctx)
        except mir.AnchorMissing as e:
            ctx.bad("anchor-missing:%s" % e.what.replace(" ", "="), "anchor not found: %s (the mechanism this rule decides has moved or been replaced; cannot decide)" % e.what)
        except Exception as e:  # a crashed rule must never pass silently
            tb = traceback.format_exc()
            ctx.bad("rule-crashed", "rule crashed (%s: %s); cannot decide" % (type(e).__name__, e), detail=tb[-1500:])
        if len(ctx.insts) == n0:
            ctx.bad("vacuous", "rule produced no instance at all")
    return ctx


def premise_rules(module_name, names):
    """Rules of another property that this property's verdict rests on (its stated assumptions, decided instead of assumed):
    returns (rule name, function) pairs to append to the importing RULES list.  Instances are keyed
    `<this property>:uses-<OTHER>.<rule>:...`, so a report says whose clause failed.  The other module is imported
    when the rule runs, not when the list is built."""
    def make(rname):
        def run(ctx):
            import importlib
            mod = importlib.import_module("rules." + module_name)
            dict(mod.RULES)[rname](ctx)
        return run
    return [("uses-%s.%s" % (module_name.upper(), rname), make(rname)) for rname in names]


def movegen_premises(extra_c01=()):
    """What "a legal move" rests on, for every property whose statement uses the notion (C08, C09, C12, C14): the legality
    filter and its probe, the generators' tables and operators (C01) and the attack tables underneath (C06)."""
    c01 = ["filter", "probe", "square-arith", "leaf-accessors", "pawn-table", "generators", "castle-pre", "castle-masks", "castle-moves", "dispatch", "capture-src", "ply-builder"]
    c01 += [r for r in extra_c01 if r not in c01]
    return premise_rules("c01", c01) + premise_rules("c06", ["bitboard-ops", "rays", "magic", "scheme", "mask-edges", "ray-walk", "leapers", "subset-enum", "bit-iteration"])


def run_selftest(prop):
    """Thorough tier (ii): apply this property's seeded mutants (selftest/mutants.json) to scratch copies of the CURRENT tree and
    require the expected rule to fire.  Results are recorded in the evidence; a miss is printed but is not a property violation."""
    import subprocess
    import tempfile
    out = tempfile.NamedTemporaryFile(prefix="rce-selftest-", suffix=".json", delete=False)
    out.close()
    try:
        r = subprocess.run([sys.executable, os.path.join(VERIF, "tools", "selftest.py"), "--prop", prop, "--jobs", "8", "--json", out.name],
                           capture_output=True, text=True, cwd=VERIF)
        try:
            with open(out.name) as fh:
                res = json.load(fh)
        except (OSError, ValueError):
            res = []
    finally:
        try:
            os.remove(out.name)
        except OSError:
            pass
    fired = [x for x in res if x["status"] == "FIRED"]
    missed = [x for x in res if x["status"] in ("MISSED", "NOBUILD")]
    skipped = [x for x in res if x["status"] == "SKIPPED"]
    for x in missed:
        print("SELFTEST-MISS property=%s mutant=%s expected a violation containing %r (status %s)" % (prop, x["id"], x.get("expect"), x["status"]))
    return {"selftest": {"mutants": len(res), "fired": len(fired), "skipped_anchor_gone": len(skipped), "missed": len(missed),
                         "detail": [{"mutant": x["id"], "status": x["status"], "violation": (x.get("hit") or [None])[0]} for x in res]}}


def load_known():
    known, fixed = {}, []
    if os.path.exists(KNOWN):
        with open(KNOWN) as fh:
            for line in fh:
                line = line.strip()
                if not line or line.startswith("#"):
                    continue
                if line.startswith("fixed:"):
                    fixed.append(line)
                    continue
                d = json.loads(line)
                if d.get("status") == "known":
                    known[d["key"]] = d
                else:
                    fixed.append(d)
    return known, fixed


def main(prop, title, rules, level, explanation, assumptions, trusted_base=None, tier=None, extra=None,
         thorough_hook=None):
    """Entry point used by every cNN module.  Returns the process exit code."""
    t0 = time.time()
    tier = tier or os.environ.get("VERIF_TIER") or "quick"
    seed = int(os.environ.get("VERIF_SEED", "0") or 0)
    # both build configurations in both tiers: users run the release build, the suite runs the dev build, and a line behind
    # `#[cfg(debug_assertions)]` exists in one of them only (a seeded change hid the abort re-check that way)
    configs = ["dev", "release"]
    all_insts = []
    metas = []
    functions = set()
    try:
        for cfg in configs:
            f, meta = factsmod.load(release=(cfg == "release"))
            ix = mir.Index(f)
            ctx = run_rules(prop, rules, ix, cfg)
            metas.append(meta)
            functions |= ctx.functions
            for i in ctx.insts:
                i.config = cfg
            all_insts.extend(ctx.insts)
        extra_cov = {}
        if tier == "thorough":
            extra_cov = run_selftest(prop)
            if thorough_hook is not None:
                hook_insts, more = thorough_hook()
                extra_cov.update(more)
                for i in hook_insts:
                    i.config = "thorough"
                all_insts.extend(hook_insts)
    except factsmod.BuildError as e:
        print("ERROR property=%s cannot analyse /repo: %s" % (prop, e))
        return 2

    known, _fixed = load_known()
    # de-duplicate by key across configurations (a key violated in any configuration is violated)
    by_key = {}
    for i in all_insts:
        cur = by_key.get(i.key)
        if cur is None or (cur.ok and not i.ok):
            by_key[i.key] = i
    viol = [i for i in by_key.values() if not i.ok and not i.note]
    listed = [i for i in viol if i.key in known]
    unlisted = [i for i in viol if i.key not in known]
    stale = [k for k, d in known.items() if d.get("property") == prop and k not in {i.key for i in viol}]

    for i in listed:
        print("KNOWN-FINDING: property=%s %s [%s] %s" % (prop, known[i.key].get("what", i.what), i.key, i.where))
    os.makedirs(EVIDENCE_DIR, exist_ok=True)
    replay = os.path.join(EVIDENCE_DIR, "%s.violations.json" % prop)
    if unlisted:
        with open(replay, "w") as fh:
            json.dump([i.to_json() for i in unlisted], fh, indent=1)
        for i in unlisted:
            print("  violated %s\n    %s\n    at %s" % (i.key, i.what, i.where))
            if i.detail and isinstance(i.detail, str):
                print("    " + i.detail.replace("\n", "\n    ")[:1200])
        print("VIOLATION property=%s replay=%s" % (prop, replay))
    elif os.path.exists(replay):
        os.remove(replay)

    insts = list(by_key.values())
    verdicts = [i for i in insts if not i.note]
    nontrivial_keys = {i.key for i in verdicts if i.nontrivial}
    samples = [i.to_json() for i in verdicts[:6]]
    # make sure every rule shows at least one sample
    seen_rules = {s["rule"] for s in samples}
    for i in verdicts:
        if i.rule not in seen_rules:
            samples.append(i.to_json())
            seen_rules.add(i.rule)
    coverage = {
        "explanation": explanation + (
            " Instances keyed `uses-<ID>.<rule>` re-decide, inside this check, the clauses of property <ID> that this property rests on (%s): a change that breaks this property through that code is reported here as well."
            % ", ".join(sorted({n.split(".")[0][5:] for n, _f in rules if n.startswith("uses-")})) if any(n.startswith("uses-") for n, _f in rules) else ""),
        "evaluations": len(all_insts),
        "distinct_nontrivial": len(nontrivial_keys),
        "rule": "one evaluation = one rule instance (a call site, store, table row, constant or path obligation extracted from /repo's MIR) checked in one build configuration; distinct = distinct instance keys; non-trivial = the instance carries an obligation that can fail (anchors-present and floor instances are counted, notes are not)",
        "samples": samples,
        "rules": sorted({i.rule for i in insts}),
        "rule_instances": {r: sum(1 for i in verdicts if i.rule == r) for r in sorted({i.rule for i in verdicts})},
        "functions_analysed": sorted(functions),
        "n_functions_analysed": len(functions),
        "configurations": [{"config": m["config"], "cfg": m["cfg"], "fn_bodies": m["n_fn_bodies"], "tree_hash": m["tree_hash"][:16], "driver_s": m["driver_s"], "cached": m["cached"]} for m in metas],
        # what was rewritten on the facts before the rules read them (nothing on the reference tree): rules/inline.py, expand.py,
        # pipeline.py, unroll.py
        "normalisations": [{"config": m["config"], "helpers_expanded": m.get("helpers_expanded", []), "renamed_anchors": m.get("renamed_anchors", []),
                            "renamed_fields": m.get("renamed_fields", []), "renamed_types": m.get("renamed_types", []), "loops_unrolled": m.get("loops_unrolled", []),
                            "combinators_expanded": m.get("combinators_expanded", []), "pipelines_lowered": m.get("pipelines_lowered", [])} for m in metas],
        "notes": [i.to_json() for i in insts if i.note],
        "known_findings_matched": [i.key for i in listed],
        "known_findings_stale": stale,
        "violations_unlisted": [i.to_json() for i in unlisted],
        "exhaustive": True,
    }
    if level == "proof":
        coverage["obligations"] = len(verdicts)
        coverage["discharged"] = len([i for i in verdicts if i.ok])
        coverage["checker_cmd"] = "./check %s --tier %s" % (prop, tier)
        coverage["trusted_base"] = trusted_base or []
    if extra:
        coverage.update(extra)
    if tier == "thorough":
        coverage.update(extra_cov)
    ev = {
        "property_id": prop,
        "tier": tier,
        "seed": seed,
        "level": level,
        "coverage": coverage,
        "assumptions": assumptions,
        "wall_s": round(time.time() - t0, 2),
        "violations": len(unlisted),
    }
    with open(os.path.join(EVIDENCE_DIR, "%s.json" % prop), "w") as fh:
        json.dump(ev, fh, indent=1)
    n_ok = len([i for i in verdicts if i.ok])
    print("%s %s: %d rule instance(s) over %d function(s) in %s: %d ok, %d known finding(s), %d violation(s)  [%.1fs]"
          % (prop, title, len(verdicts), len(functions), "+".join(configs), n_ok, len(listed), len(unlisted), time.time() - t0))
    return 1 if unlisted else 0
