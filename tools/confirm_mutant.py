#!/usr/bin/env python3
"""Confirm a seeded change in a scratch worktree and file it under /verif/seeded/<name>/.

  tools/confirm_mutant.py <out dir with patch.diff, demo.sh | demo.patch, README.md> <name> <property> [--filter TESTFILTER] [--needs TEXT]

Checks, in a fresh worktree of /repo HEAD: (1) with patch.diff the suite reports 329 passed / 0 failed;
(2) the demonstration fails with the patch; (3) it passes without it.  Then runs the property's check on
the patched tree and records whether it is caught."""
import json, os, re, shutil, subprocess, sys, tempfile

VERIF = os.path.dirname(os.path.dirname(os.path.abspath(__file__)))


def sh(cmd, cwd=None, timeout=1200, env=None):
    r = subprocess.run(cmd, shell=True, cwd=cwd, capture_output=True, text=True, timeout=timeout, env=env)
    return r.returncode, r.stdout + r.stderr


def run_demo(out, wt, flt):
    if os.path.exists(os.path.join(out, "demo.sh")):
        sh("timeout 900 cargo build --offline", cwd=wt)     # scripts drive the built binary: it must be the tree's own
        rc, o = sh("timeout 900 bash %s %s" % (os.path.join(out, "demo.sh"), wt), cwd=wt)
        return rc == 0, o[-1500:]
    rc, o = sh("git apply %s" % os.path.join(out, "demo.patch"), cwd=wt)
    if rc != 0:
        return None, "demo.patch does not apply: " + o
    rc, o = sh("timeout 900 cargo test --offline %s 2>&1 | tail -30" % flt, cwd=wt)
    m = re.findall(r"test result: (\w+)\. (\d+) passed; (\d+) failed", o)
    ran = sum(int(x[1]) + int(x[2]) for x in m)
    ok = bool(m) and all(x[0] == "ok" for x in m) and ran > 0
    sh("git apply -R %s" % os.path.join(out, "demo.patch"), cwd=wt)
    return ok, o[-1500:]


def main(argv):
    out, name, prop = argv[0], argv[1], argv[2]
    flt = argv[argv.index("--filter") + 1] if "--filter" in argv else ""
    needs = argv[argv.index("--needs") + 1] if "--needs" in argv else ""
    checks = argv[argv.index("--checks") + 1].split(",") if "--checks" in argv else [prop]
    tmp = tempfile.mkdtemp(prefix="rce-confirm-")
    wt = os.path.join(tmp, "repo")
    res = {"property": prop, "name": name}
    try:
        subprocess.run(["git", "-C", "/repo", "worktree", "add", "--detach", "-q", wt, "HEAD"], check=True)
        base = subprocess.run(["git", "-C", "/repo", "rev-parse", "--short", "HEAD"], capture_output=True, text=True).stdout.strip()
        res["base_commit"] = base
        rc, o = sh("git apply %s" % os.path.join(out, "patch.diff"), cwd=wt)
        if rc != 0:
            print("patch does not apply:", o); return 2
        rc, o = sh("timeout 1200 cargo test --workspace --no-fail-fast --offline 2>&1 | grep -E '^test result|^error' ", cwd=wt)
        res["suite_with_patch"] = o.strip()
        suite_ok = "329 passed; 0 failed" in o
        ok_with, o1 = run_demo(out, wt, flt)
        res["demo_with_patch"] = "passes (BAD)" if ok_with else "fails (as required)"
        sh("git apply -R %s" % os.path.join(out, "patch.diff"), cwd=wt)
        ok_without, o2 = run_demo(out, wt, flt)
        res["demo_without_patch"] = "passes (as required)" if ok_without else "FAILS (BAD)"
        confirmed = suite_ok and ok_with is False and ok_without is True
        res["confirmed"] = confirmed
        print(json.dumps(res, indent=1))
        if not confirmed:
            print("--- demo with patch ---\n" + o1 + "\n--- demo without patch ---\n" + o2)
            return 1
    finally:
        subprocess.run(["git", "-C", "/repo", "worktree", "remove", "--force", wt])
        shutil.rmtree(tmp, ignore_errors=True)
    # which checks catch it
    caught = {}
    for c in checks:
        r = subprocess.run([os.path.join(VERIF, "tools", "on_tree.py"), "--patch", os.path.join(out, "patch.diff"), "--", c], capture_output=True, text=True, cwd=VERIF)
        keys = re.findall(r"violated (\S+)", r.stdout)
        caught[c] = keys
    res["caught_by"] = caught
    dst = os.path.join(VERIF, "seeded", name)
    os.makedirs(dst, exist_ok=True)
    for f in ("patch.diff", "demo.sh", "demo.patch", "README.md"):
        if os.path.exists(os.path.join(out, f)):
            shutil.copy(os.path.join(out, f), os.path.join(dst, f))
    meta = {"property": prop, "breaks": prop, "needs_to_manifest": needs, "demo_filter": flt,
            "what_i_ran": ["git worktree add <scratch> HEAD(%s); git apply patch.diff; cargo test --workspace --no-fail-fast --offline -> %s" % (res["base_commit"], res["suite_with_patch"]),
                           "demonstration with patch: " + res["demo_with_patch"], "demonstration without patch: " + res["demo_without_patch"],
                           "tools/on_tree.py --patch patch.diff -- " + " ".join(checks)],
            "origin": "independent sub-agent given only the property text and a scratch worktree", "caught_by": caught}
    json.dump(meta, open(os.path.join(dst, "meta.json"), "w"), indent=1)
    print("filed under", dst, "caught_by", {k: len(v) for k, v in caught.items()})
    return 0


if __name__ == "__main__":
    sys.exit(main(sys.argv[1:]))
