#!/usr/bin/env python3
"""Regenerate /verif/MANIFEST.json from tools/claims.py (keeps the manifest valid and consistent)."""
import json, os, sys
HERE = os.path.dirname(os.path.abspath(__file__))
VERIF = os.path.dirname(HERE)
sys.path.insert(0, HERE)
import claims  # noqa

props = [json.loads(l) for l in open(os.path.join(VERIF, "properties.jsonl"))]
checks = []
na = []
for p in props:
    pid = p["id"]
    c = claims.CHECKS.get(pid)
    if c:
        checks.append({
            "property_id": pid,
            "quick_cmd": "./check %s --tier quick" % pid,
            "thorough_cmd": "./check %s --tier thorough" % pid,
            "evidence_file": "evidence/%s.json" % pid,
            "replay_cmd_template": "cat {path}",
            "engine": "mirfacts+rules",
            "level_claimed": {"category": c["category"], "text": c["text"], "design_ref": c["design_ref"]},
            "level_note": c["note"],
            "technique": c["technique"],
        })
    else:
        na.append({"property_id": pid, "reason": claims.NOT_APPLICABLE.get(pid, "check not implemented yet (build in progress; design in DESIGN.md section 3)")})
m = {
    "version": 1,
    "setup_cmd": "cd engine/mirfacts && CARGO_NET_OFFLINE=true cargo build --offline",
    "hooks": {"guard": "rce_verif",
              "enable": "none needed: static analysis uses no hooks; /repo contains no cfg(rce_verif) code",
              "baseline_off_cmd": "cd /repo && cargo test --workspace --no-fail-fast --offline",
              "source_commits": [], "add_only": True},
    "engines": [
        {"name": "mirfacts", "path": "engine/mirfacts", "serves_properties": sorted(claims.CHECKS),
         "kind_free_text": "rustc_private driver (nightly) injected with RUSTC_WORKSPACE_WRAPPER under cargo check: dumps MIR with resolved callees, ADT tables, evaluated constants and statics of /repo's current working tree"},
        {"name": "rules", "path": "rules", "serves_properties": sorted(claims.CHECKS),
         "kind_free_text": "Python rule engine over the facts: CFG / dominators / must-pass-through, call graph and who-may-write summaries, decision-table extraction, symbolic slices, constants vs chess-geometry oracle"},
    ],
    "checks": checks,
    "notes": claims.NOTES,
    "not_applicable": na,
}
json.dump(m, open(os.path.join(VERIF, "MANIFEST.json"), "w"), indent=1)
print("claimed:", [c["property_id"] for c in checks], "not_applicable:", [n["property_id"] for n in na])
