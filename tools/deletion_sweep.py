#!/usr/bin/env python3
"""Mutation sweep used to look for "must exist" gaps: delete one statement line at a time from the files that implement
the properties' mechanisms, keep the mutants that still build, run the relevant rule sets on each, and list the mutants no
rule reports.  With --suite the survivors are then run through the repository's test suite: a mutant that passes both is
either equivalent or a gap to triage by hand.

  tools/deletion_sweep.py [--jobs N] [--suite] [--out FILE] [--files a.rs,b.rs]

Development aid; nothing registered in MANIFEST.json uses it."""
import importlib, json, multiprocessing, os, re, shutil, subprocess, sys, tempfile, time

VERIF = os.path.dirname(os.path.dirname(os.path.abspath(__file__)))
sys.path.insert(0, VERIF)
sys.path.insert(0, os.path.join(VERIF, "tools"))
from selftest import copy_tree  # noqa

PLAN = {
    "src/search.rs": ["C09", "C11", "C12", "C13", "C14", "C16"],
    "src/uci.rs": ["C08", "C09", "C10", "C15", "C16"],
    "src/uci/uci_command.rs": ["C08", "C09", "C15"],
    "src/board.rs": ["C01", "C02", "C03", "C04"],
    "src/search/limits.rs": ["C09", "C16"],
    "src/search/move_orderer.rs": ["C11", "C15"],
    "src/board/serialize.rs": ["C07"],
    "src/board/boardbuilder.rs": ["C07", "C04"],
    "src/board/zkey.rs": ["C04", "C05"],
    "src/board/piece/pawn.rs": ["C01", "C06"],
    "src/board/piece/king.rs": ["C01", "C06"],
    "src/board/piece/knight.rs": ["C01", "C06"],
    "src/board/piece/bishop.rs": ["C01", "C06"],
    "src/board/piece/rook.rs": ["C01", "C06"],
    "src/board/piece/queen.rs": ["C01", "C06"],
    "src/board/piece.rs": ["C01", "C06"],
    "src/board/piece_bitboards.rs": ["C07", "C02", "C17"],
    "src/board/piece_bitboards/builder.rs": ["C07"],
    "src/board/ply/builder.rs": ["C01", "C03"],
    "src/board/ply.rs": ["C01", "C08", "C14"],
    "src/evaluate/simple_evaluator.rs": ["C17"],
    "src/board/square.rs": ["C01", "C14"],
    "src/board/bitboard.rs": ["C06", "C01"],
}
SKIP = re.compile(r"^\s*(let\b|use\b|pub\b|const\b|static\b|type\b|#|//|fn\b|impl\b|mod\b|struct\b|enum\b|trait\b|assert|debug_assert|\}|\{)")


OPS = [(" <= ", " < "), (" < ", " <= "), (" >= ", " > "), (" > ", " >= "), (" == ", " != "), (" != ", " == "), (" && ", " || "), (" || ", " && "), (" + 1", " + 2"), (" - 1", " - 2")]


def op_candidates(files):
    """(file, line index, original line, replacement line) for one relational / logical / off-by-one replacement per
    occurrence (the classic mutation operators)."""
    out = []
    for f in files:
        lines = open(os.path.join("/repo", f)).read().split("\n")
        in_tests = False
        for i, ln in enumerate(lines):
            if "#[cfg(test)]" in ln:
                in_tests = True
            if in_tests or ln.strip().startswith(("//", "#", "use ", "assert", "debug_assert")) or "->" in ln and "fn " in ln:
                continue
            for a, b_ in OPS:
                start = 0
                while True:
                    j = ln.find(a, start)
                    if j < 0:
                        break
                    # not inside a generic / arrow / string
                    if ln[max(0, j - 1):j + 3].strip() not in ("->", "=>") and ln.count('"', 0, j) % 2 == 0:
                        out.append((f, i, ln.strip(), ln[:j] + b_ + ln[j + len(a):]))
                    start = j + len(a)
    return out


def neg_candidates(files):
    """`if COND {` -> `if !(COND) {` for single-line conditions; `true` <-> `false` literals in argument position."""
    out = []
    for f in files:
        lines = open(os.path.join("/repo", f)).read().split("\n")
        in_tests = False
        for i, ln in enumerate(lines):
            if "#[cfg(test)]" in ln:
                in_tests = True
            if in_tests:
                continue
            s = ln.strip()
            m = re.match(r"^(\s*)(\} else )?if (?!let )(.+) \{$", ln)
            if m and "//" not in ln:
                out.append((f, i, s, "%s%sif !(%s) {" % (m.group(1), m.group(2) or "", m.group(3))))
            for a, b_ in (("(true)", "(false)"), ("(false)", "(true)")):
                if a in ln and not s.startswith(("//", "assert", "debug_assert")):
                    out.append((f, i, s, ln.replace(a, b_, 1)))
    return out


def const_candidates(files):
    """Each decimal literal n in a code line -> n + 1 (not in tables, attributes, strings)."""
    out = []
    for f in files:
        lines = open(os.path.join("/repo", f)).read().split("\n")
        in_tests = False
        for i, ln in enumerate(lines):
            if "#[cfg(test)]" in ln:
                in_tests = True
            s = ln.strip()
            if in_tests or s.startswith(("//", "#", "use ", "assert", "debug_assert")) or "0x" in ln or ln.count(",") > 4:
                continue
            for m in re.finditer(r"(?<![A-Za-z_0-9.\"])(\d+)(?![A-Za-z_0-9.\"])", ln):
                if ln.count('"', 0, m.start()) % 2 == 1 or "//" in ln[:m.start()]:
                    continue
                out.append((f, i, s, ln[:m.start()] + str(int(m.group(1)) + 1) + ln[m.end():]))
    return out


def candidates(files):
    out = []
    for f in files:
        lines = open(os.path.join("/repo", f)).read().split("\n")
        in_tests = False
        for i, ln in enumerate(lines):
            if "#[cfg(test)]" in ln:
                in_tests = True
            if in_tests:
                continue
            s = ln.strip()
            if not s.endswith(";") or SKIP.match(ln) or len(s) < 6:
                continue
            out.append((f, i, s))
    return out


def run_one(arg):
    f, i, text = arg[:3]
    from rules import facts as F, mir, engine, inline
    t0 = time.time()
    tmp = tempfile.mkdtemp(prefix="rce-del-")
    try:
        wt = os.path.join(tmp, "repo")
        copy_tree(wt)
        p = os.path.join(wt, f)
        lines = open(p).read().split("\n")
        if len(arg) > 3:
            lines[i] = arg[3]
        else:
            del lines[i]
        open(p, "w").write("\n".join(lines))
        out = os.path.join(tmp, "facts.json")
        try:
            F.run_driver(wt, out, release=False)
        except F.BuildError:
            return dict(file=f, line=i + 1, text=text, new=arg[3].strip() if len(arg) > 3 else None, status="nobuild", s=round(time.time() - t0, 1))
        facts = json.load(open(out))
        inline.apply(facts)
        ix = mir.Index(facts)
        fired = []
        for prop in PLAN[f]:
            mod = importlib.import_module("rules." + prop.lower())
            ctx = engine.run_rules(prop, mod.RULES, ix, "dev")
            fired += [k.key for k in ctx.insts if not k.ok and not k.note]
            if fired:
                break
        return dict(file=f, line=i + 1, text=text, new=arg[3].strip() if len(arg) > 3 else None, status="caught" if fired else "SURVIVED", fired=fired[:2], s=round(time.time() - t0, 1))
    finally:
        shutil.rmtree(tmp, ignore_errors=True)


def suite_one(m):
    tmp = tempfile.mkdtemp(prefix="rce-dels-")
    try:
        wt = os.path.join(tmp, "repo")
        copy_tree(wt)
        p = os.path.join(wt, m["file"])
        lines = open(p).read().split("\n")
        if m.get("new") is not None:
            indent = lines[m["line"] - 1][:len(lines[m["line"] - 1]) - len(lines[m["line"] - 1].lstrip())]
            lines[m["line"] - 1] = indent + m["new"]
        else:
            del lines[m["line"] - 1]
        open(p, "w").write("\n".join(lines))
        r = subprocess.run("timeout 600 cargo test --workspace --no-fail-fast --offline 2>&1 | grep 'test result' | head -3", shell=True, cwd=wt, capture_output=True, text=True,
                           env=dict(os.environ, CARGO_TARGET_DIR=os.path.join(tmp, "target")))
        res = re.findall(r"(\d+) passed; (\d+) failed", r.stdout)
        m["suite"] = "%s passed, %s failed" % res[0] if res else "no result (timeout / build)"
        return m
    finally:
        shutil.rmtree(tmp, ignore_errors=True)


def main(argv):
    jobs = int(argv[argv.index("--jobs") + 1]) if "--jobs" in argv else 8
    files = argv[argv.index("--files") + 1].split(",") if "--files" in argv else sorted(PLAN)
    out = argv[argv.index("--out") + 1] if "--out" in argv else "/tmp/deletion_sweep.json"
    cands = op_candidates(files) if "--ops" in argv else neg_candidates(files) if "--neg" in argv else const_candidates(files) if "--consts" in argv else candidates(files)
    print("%d candidate lines in %d files" % (len(cands), len(files)), flush=True)
    with multiprocessing.Pool(jobs) as pool:
        res = list(pool.imap_unordered(run_one, cands, chunksize=1))
    surv = sorted([r for r in res if r["status"] == "SURVIVED"], key=lambda r: (r["file"], r["line"]))
    print("built %d, caught %d, survived %d, did not build %d" % (sum(1 for r in res if r["status"] != "nobuild"), sum(1 for r in res if r["status"] == "caught"), len(surv),
                                                                 sum(1 for r in res if r["status"] == "nobuild")), flush=True)
    if "--suite" in argv:
        with multiprocessing.Pool(max(1, jobs // 2)) as pool:
            surv = list(pool.imap_unordered(suite_one, surv, chunksize=1))
        surv.sort(key=lambda r: (r["file"], r["line"]))
    json.dump({"all": res, "survivors": surv}, open(out, "w"), indent=1)
    for r in surv:
        print("%-28s %4d  %-16s %s" % (r["file"], r["line"], r.get("suite", ""), (r["new"] if r.get("new") else r["text"])[:110]))
    return 0


if __name__ == "__main__":
    sys.exit(main(sys.argv[1:]))
