#!/usr/bin/env python3
"""Print the prompt given to a fresh sub-agent that must break one property (nothing from /verif is disclosed)."""
import json, sys
props = {json.loads(l)["id"]: json.loads(l) for l in open("/verif/properties.jsonl")}
pid = sys.argv[1]
n = sys.argv[2] if len(sys.argv) > 2 else "1"
p = props[pid]
wt = "/tmp/mut/%s" % (pid if n == "1" else "%s-%s" % (pid, n))
twist = ""
if n == "3":
    twist = ("This is a third round. Produce TWO independent changes (deliver them as out/1/ and out/2/, each with its own patch.diff, demo and README.md, each verified "
             "on its own from a clean checkout). This time each change must be DISGUISED AS A REFACTORING or clean-up: the diff should read like a behaviour-preserving "
             "tidy-up a reviewer would wave through - extracting a helper, merging duplicated branches, replacing a match by if-let / matches! / a combinator "
             "(is_some_and, map_or, then_some, filter, unwrap_or_default ...), hoisting a computation into a local, replacing a loop by an iterator chain, introducing a "
             "named constant, reordering statements or match arms, moving code between functions - but one detail of the rewrite is subtly NOT equivalent (a condition that "
             "became slightly wider or narrower, an evaluation that moved across a state change, a short-circuit that no longer short-circuits, a default that differs, "
             "an arm that was merged with a not-quite-identical one, a helper called with a neighbouring argument, a guard dropped for one of several call sites). Keep the "
             "non-equivalent detail small relative to the honest part of the refactoring (the diff may be 20-80 lines). For each of the two: ")
elif n == "5":
    twist = ("This is a fifth round: direct changes, disguised refactorings and changes to shared helpers have all been tried. Produce TWO independent changes (deliver them "
             "as out/1/ and out/2/, each with its own patch.diff, demo and README.md, each verified on its own from a clean checkout), each of a DIFFERENT one of these kinds: "
             "(a) STATE THAT OUTLIVES ITS USE - something not reset, restored or re-read between two uses: a second `position`, a second `go`, `ucinewgame`, a search after a "
             "stopped search, a value cached in a struct field / static / local before a loop and used after the thing it describes has changed, an early return that skips a "
             "restore; (b) A BOUNDARY VALUE - an off-by-one or wrong comparison strictness that matters only at an extreme the tests never reach (rank or file 0 / 7, square "
             "63, depth 0 / 1 / 255, clock 99 / 100, counter at its type's maximum, an empty or one-element list, the last iteration of a loop); (c) AN ERROR OR RARELY TAKEN "
             "PATH - the Err / None / else arm, a `continue`, a `break`, a fallback default, the branch taken only when a lookup misses or a table entry is absent; "
             "(d) A MIX-UP BETWEEN TWO VALUES OF THE SAME TYPE at a call site or in a struct literal - start / dest, rank / file, alpha / beta, the mover's colour vs the "
             "opponent's, white / black fields, two Option<Millisecond> limits - where every existing test happens to pass because the two values coincide or are symmetric "
             "there. For each of the two: ")
elif n == "9":
    twist = ("This is a ninth round. Produce TWO independent changes (deliver them as out/1/ and out/2/, each with its own patch.diff, demo and README.md, each verified on its "
             "own from a clean checkout). This time each change must be a pure DELETION: the diff only removes code (a statement, a call, an `if` guard around code that stays, "
             "a whole branch or match arm - replaced at most by `_ => {}` / `()` / the fall-through that makes it compile -, a `mut`/reset/clear/update of a field, a term of a "
             "sum or of an `&&` / `||` chain, an argument default, an element of a table or array literal together with the adjustment that keeps it compiling, a loop `break` "
             "or early `return`, a `pub fn` call in an initialisation sequence, a line of a Cargo profile). No new logic may be written; a deleted guard's body may be kept. "
             "It should look like dead-code removal or simplification ('this case cannot happen', 'redundant with the check above', 'already done by the caller'). The two "
             "changes must delete different kinds of thing in different functions. For each of the two: ")
elif n == "8":
    twist = ("This is an eighth round: rewritten logic, added logic and changed declarations have all been tried. Produce TWO independent changes (deliver them as out/1/ and "
             "out/2/, each with its own patch.diff, demo and README.md, each verified on its own from a clean checkout). This time each change must only REORDER or RELOCATE "
             "existing code - every expression and statement of the original stays, textually unchanged or nearly so, but at a different place or time: two statements or calls "
             "swapped; a value read before instead of after an update (or the reverse); a computation hoisted out of a loop or branch, or sunk into one; an initialisation made "
             "lazy instead of eager or the reverse; a reset / clear / push / pop / store moved from the start of an operation to its end (or to a different operation); a flag, "
             "lock, handle or counter set, published, released or incremented at a different point; a `break` / `continue` / `return` moved a few lines; the operands of an "
             "`&&` / `||` / `max` / `min` or the arms of a match exchanged where one of them has an effect or a different meaning in a corner case; arguments evaluated in a "
             "different order; a statement moved across a call that reads or writes the same state; a `drop` or scope end moved. The diff should look like a harmless tidy-up "
             "(grouping related lines, moving a declaration next to its use, 'compute this once'). The two changes must touch different functions. For each of the two: ")
elif n == "7":
    twist = ("This is a seventh round: edits to the logic inside function bodies of every kind, and additions of new logic, have been tried. Produce TWO independent changes "
             "(deliver them as out/1/ and out/2/, each with its own patch.diff, demo and README.md, each verified on its own from a clean checkout). This time each change must be "
             "DECLARATIVE: it must not alter the statements of any function's logic, only DECLARATIONS and CONFIGURATION - the width or signedness of an integer type or type alias "
             "(u8 <-> u16 <-> i16, usize <-> u32), a constant's or static's value or initialiser, the order of an enum's variants or an explicit discriminant (where something "
             "casts the enum `as usize` or derives Ord), a struct's derive list, a derived impl replaced by a manual one or the reverse where they differ for some value "
             "(PartialEq / Eq / Hash / Ord / Clone / Default that leaves out or includes a field), a `Default` impl or default field value, the capacity or size of a table "
             "or array, an attribute (`#[inline]`, `#[cfg(...)]`, `#[cfg_attr]`, `#[repr(..)]`, `#[must_use]`, `#[allow]`), a trait's provided (default) method or associated "
             "constant, a generic bound or which impl a call resolves to, visibility or a re-export, the signature of a function (parameter order between same-typed "
             "parameters, `&mut` vs by-value copy of a Copy type), or the build configuration in Cargo.toml (overflow-checks, debug-assertions, panic strategy, opt-level, "
             "features, lto, codegen-units) or rust-toolchain / .cargo config. The change should look like routine maintenance (a type tidied up, a constant retuned, a derive "
             "added, a profile tweaked). The two changes must be of different kinds from this list. For each of the two: ")
elif n == "6":
    twist = ("This is a sixth round: edits to existing logic of every kind have been tried. Produce TWO independent changes (deliver them as out/1/ and out/2/, each with its "
             "own patch.diff, demo and README.md, each verified on its own from a clean checkout). This time each change must be ADDITIVE - a well-meant new feature or "
             "optimisation that mostly ADDS code and leaves the existing lines nearly untouched, the kind of pull request titled 'speed up X' or 'support Y': a fast path or "
             "early exit in front of existing logic, a small cache or memo (a field, a static, a thread_local, a HashMap) that is not invalidated or keyed quite right, a new "
             "pruning / reduction / extension / move-ordering heuristic in the search (null-move, late-move reduction, futility, aspiration window, killer or history "
             "table, check extension, mate-distance pruning, delta pruning in quiescence), incremental bookkeeping added beside a from-scratch computation, a new field on "
             "a struct that some constructor, Clone, reset or undo path does not maintain, a new UCI command / option / `go` parameter whose handling interferes with an "
             "existing one, an extra thread or channel, a time-management refinement, a lazily initialised table, a pre-check that rejects or normalises input before the "
             "existing parser sees it, or a new evaluation term. The addition must look plausible and useful on its own, be correct for ordinary inputs, and break the "
             "property only in a corner its author did not think about. The two changes must use different kinds of addition. For each of the two: ")
elif n == "4":
    twist = ("This is a fourth round: direct changes to the functions that visibly implement this behaviour, and changes disguised as refactorings of them, have been tried. "
             "Produce TWO independent changes (deliver them as out/1/ and out/2/, each with its own patch.diff, demo and README.md, each verified on its own from a clean "
             "checkout). This time put the change into SHARED INFRASTRUCTURE that the behaviour silently relies on rather than into the feature code itself: an operator impl "
             "(BitAnd/Shl/Not/Add ... on Bitboard or Square), a conversion (`From`/`Into`/`TryFrom` impl, `as` cast, integer width), a `Default`/`new` constructor or builder "
             "default, a derive or manual impl of PartialEq/Eq/Hash/Ord/Clone/Copy, a `const`/`static` or lookup table, an accessor/getter, an initialisation order "
             "(OnceLock init, what is computed before what), a Display/Debug impl that something parses back, an iterator impl (`next`, `size_hint`), a saturating/wrapping/"
             "checked arithmetic choice, or a cfg/feature-dependent path. Alternatively, use TWO COOPERATING SITES that each look correct alone. The change must leave every "
             "direct use that the tests exercise intact and bite only for particular values. For each of the two: ")
elif n != "1":
    twist = ("This is a second round: the obvious places have already been tried. Produce TWO independent changes (deliver them as out/1/ and out/2/, each with its own "
             "patch.diff, demo and README.md, each verified on its own from a clean checkout). They must differ from each other in mechanism and in the function they touch. "
             "Stay away from the single most obvious line for this property; prefer a site one or two calls away from where the behaviour is visibly implemented - a helper, "
             "a conversion, a constant or table, a builder, an initialiser, a comparison operator, an ordering of two statements - or a change that only matters in combination "
             "with existing code elsewhere. For each of the two: ")
print(f"""You are testing how robust a chess engine's quality gates are. The engine is the Rust crate `rust_chess_engine` (BrandonHarrisonCode/RCE: bitboard board with make/unmake, magic-bitboard move generation, Zobrist hashing, alpha-beta search with a transposition table, FEN and UCI). A scratch git worktree of it is at {wt}/repo . Work ONLY inside {wt}/ . Do NOT read, list or touch /verif, and do NOT modify /repo.

The property under test (a behavioural guarantee the engine is supposed to give):

  Title: {p['title']}
  Statement: {p['statement']}
  Holds: {p['quantifier']['text']}

{twist}Your job: make ONE small, realistic source change to the engine (the kind of slip or well-meant "improvement" a developer could commit) that BREAKS this property, while
  (a) the crate still compiles (`cargo build --offline` in the worktree; the toolchain is nightly via rust-toolchain, there is no network), and
  (b) the existing test suite still passes unchanged: `cargo test --workspace --no-fail-fast --offline` must report 329 passed, 0 failed (do not edit, add to, or delete existing tests).
The change should need something specific to manifest - a particular position or move sequence, an unusual but valid input, a particular interleaving or timing, a multi-step sequence of commands, or two cooperating sites that each look fine alone - not something ordinary use would expose at once. Prefer a change in the logic a reader would have to think about; avoid changes that are only cosmetic or that merely rename things. Keep it to a few lines.

Then write a DEMONSTRATION that the property is broken: either a new Rust `#[test]` (put it in a new `#[cfg(test)] mod` appended to a source file, only for the demonstration) or a shell script that drives the built binary `target/debug/rust_chess_engine` over stdin/stdout. The demonstration must FAIL with your change and PASS on the unchanged worktree. ALWAYS wrap any run of the engine binary in `timeout 20` (it reads stdin in a loop), and always use timeouts on cargo test runs too (`timeout 600`).

Deliver in {wt}/out/ :
  - patch.diff : `git diff` of your source change ONLY (without the demonstration test), applicable with `git apply` to a clean checkout;
  - demo.patch (if the demonstration is a Rust test: a second diff that adds only the test) or demo.sh (if it is a script; it must exit 0 when the property holds and non-zero when broken, and take the path of the repo worktree as $1);
  - README.md : what you changed and why it breaks the property, exactly what is needed for it to manifest, the commands you ran and their observed results (suite result with the change; demonstration with and without the change).
Verify all of it yourself before finishing: start from `git stash`/clean state, apply patch.diff, run the suite (329 passed), run the demonstration (fails); revert, run the demonstration (passes). Leave the worktree clean (`git checkout -- . && git clean -fd src`) when done; the files in out/ are what counts. If after serious effort you cannot find a change that passes the existing suite, say so in README.md and describe your best attempt.""")
