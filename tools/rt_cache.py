#!/usr/bin/env python3
"""Development aid for false-alarm hardening: like refactor_test.py, but keeps the raw facts of each refactored
tree in a scratch directory (default /tmp/rt/facts) so that rule changes can be re-tested in seconds.

  tools/rt_cache.py --dir DIR [--only NAME] [--props C01,C02] [--jobs N] [--store DIR]

Nothing registered in MANIFEST.json uses this tool."""
import glob, importlib, json, multiprocessing, os, shutil, subprocess, sys, tempfile, time, hashlib

VERIF = os.path.dirname(os.path.dirname(os.path.abspath(__file__)))
sys.path.insert(0, VERIF)
sys.path.insert(0, os.path.join(VERIF, "tools"))
from selftest import copy_tree  # noqa

PROPS = ["C%02d" % i for i in range(1, 18)]
STORE = "/tmp/rt/facts"


def raw_facts(path, store):
    from rules import facts as F
    h = hashlib.sha256(open(path, "rb").read()).hexdigest()[:16]
    head = subprocess.run(["git", "-C", "/repo", "rev-parse", "HEAD"], capture_output=True, text=True).stdout.strip()[:10]
    fp = os.path.join(store, "%s-%s-%s-%s.json" % (os.path.basename(path), h, head, F._driver_hash()[:8]))
    if os.path.exists(fp):
        return json.load(open(fp)), None
    tmp = tempfile.mkdtemp(prefix="rce-rt-")
    try:
        wt = os.path.join(tmp, "repo")
        copy_tree(wt)
        r = subprocess.run(["git", "apply", "--unsafe-paths", "--directory", wt, path], capture_output=True, text=True, cwd=tmp)
        if r.returncode != 0:
            r = subprocess.run(["patch", "-p1", "-s", "-d", wt, "-i", path], capture_output=True, text=True)
            if r.returncode != 0:
                return None, "does not apply: " + (r.stderr or r.stdout)[-200:]
        out = os.path.join(tmp, "facts.json")
        try:
            F.run_driver(wt, out, release=False)
        except F.BuildError as e:
            return None, "no build: " + str(e)[-300:]
        os.makedirs(store, exist_ok=True)
        shutil.copy(out, fp)
        return json.load(open(fp)), None
    finally:
        shutil.rmtree(tmp, ignore_errors=True)


def run_one(arg):
    path, props, store = arg
    from rules import mir, engine, inline
    t0 = time.time()
    facts, err = raw_facts(path, store)
    if facts is None:
        return dict(name=os.path.basename(path), status="SKIPPED", why=err, s=0)
    exp = inline.apply(facts)
    ix = mir.Index(facts)
    alarms = []
    for prop in props:
        mod = importlib.import_module("rules." + prop.lower())
        ctx = engine.run_rules(prop, mod.RULES, ix, "dev")
        alarms += [(i.key, i.what[:400]) for i in ctx.insts if not i.ok and not i.note]
    es = ", ".join("%s->%s x%d" % (e["helper"].split("::")[-1], e["into"].split("::")[-1], e["sites"]) for e in exp)
    return dict(name=os.path.basename(path), status="SILENT" if not alarms else "ALARM", alarms=alarms,
                s=round(time.time() - t0, 1), why=("expanded: " + es) if es else "")


def main(argv):
    d = argv[argv.index("--dir") + 1]
    only = argv[argv.index("--only") + 1] if "--only" in argv else None
    jobs = int(argv[argv.index("--jobs") + 1]) if "--jobs" in argv else 8
    props = argv[argv.index("--props") + 1].split(",") if "--props" in argv else PROPS
    store = argv[argv.index("--store") + 1] if "--store" in argv else STORE
    files = sorted(glob.glob(os.path.join(d, "*.diff")))
    if only:
        files = [f for f in files if only in os.path.basename(f)]
    from rules import facts as F
    F.ensure_driver()
    with multiprocessing.Pool(jobs) as pool:
        res = pool.map(run_one, [(f, props, store) for f in files])
    bad = 0
    for r in res:
        print("%-8s %-50s %5.1fs %s" % (r["status"], r["name"], r.get("s", 0), r.get("why", "")))
        for k, w in r.get("alarms", []):
            bad += 1
            print("      FALSE ALARM %s\n          %s" % (k, w))
    print("refactor test: %d refactorings, %d silent, %d false alarm(s)" % (len(res), sum(r["status"] == "SILENT" for r in res), bad))
    return 1 if bad else 0


if __name__ == "__main__":
    sys.exit(main(sys.argv[1:]))
