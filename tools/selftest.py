#!/usr/bin/env python3
"""Self-test of the rules: apply each seeded mutant of selftest/mutants.json to a scratch copy of /repo's CURRENT
working tree, re-run the driver and the property's rules, and require the expected rule to fire.

  tools/selftest.py [--prop C13[,C10..]] [--jobs N] [--only ID]

A mutant whose anchor text is no longer present in the tree is reported as SKIPPED (never as a failure).
Scratch copies live under a temp dir outside /repo and /verif and are removed afterwards."""
import json, multiprocessing, os, shutil, subprocess, sys, tempfile, time

VERIF = os.path.dirname(os.path.dirname(os.path.abspath(__file__)))
sys.path.insert(0, VERIF)
REPO = os.environ.get("VERIF_REPO", "/repo")


def copy_tree(dst):
    os.makedirs(dst)
    for name in os.listdir(REPO):
        if name in ("target", ".git"):
            continue
        s = os.path.join(REPO, name)
        d = os.path.join(dst, name)
        if os.path.isdir(s):
            shutil.copytree(s, d)
        else:
            shutil.copy2(s, d)


def run_one(m):
    import importlib
    from rules import facts as F, mir, engine
    t0 = time.time()
    tmp = tempfile.mkdtemp(prefix="rce-selftest-")
    try:
        wt = os.path.join(tmp, "repo")
        copy_tree(wt)
        if m.get("base"):
            # a behaviour-preserving refactoring applied first: the seeded change is made to the *refactored* code
            r = subprocess.run(["git", "apply", "--unsafe-paths", "--directory", wt, os.path.join(VERIF, m["base"])], capture_output=True, text=True, cwd=tmp)
            if r.returncode != 0:
                return dict(id=m["id"], status="SKIPPED", why="base refactoring does not apply: " + (r.stderr or r.stdout)[-200:], s=0)
        for ed in m["edits"]:
            p = os.path.join(wt, ed["file"])
            s = open(p).read()
            if s.count(ed["find"]) < 1:
                return dict(id=m["id"], status="SKIPPED", why="anchor text not found in %s" % ed["file"], s=0)
            s = s.replace(ed["find"], ed["replace"], ed.get("count", 1))
            open(p, "w").write(s)
        try:
            facts, meta = F.load(repo=wt, use_cache=False)
        except F.BuildError as e:
            return dict(id=m["id"], status="NOBUILD", why=str(e)[-400:], s=time.time() - t0)
        finally:
            # remove the facts file written for this scratch tree
            pass
        ix = mir.Index(facts)
        out = {}
        for prop in m["property"] if isinstance(m["property"], list) else [m["property"]]:
            mod = importlib.import_module("rules." + prop.lower())
            ctx = engine.run_rules(prop, mod.RULES, ix, "dev")
            out[prop] = [i.key for i in ctx.insts if not i.ok and not i.note]
        try:
            os.remove(meta["facts_file"])
        except OSError:
            pass
        fired = [k for ks in out.values() for k in ks]
        exp = m["expect"]
        hit = [k for k in fired if exp in k]
        return dict(id=m["id"], status="FIRED" if hit else "MISSED", expect=exp, hit=hit[:3], fired=fired[:6], n_fired=len(fired), s=round(time.time() - t0, 1))
    finally:
        shutil.rmtree(tmp, ignore_errors=True)


def main(argv):
    muts = json.load(open(os.path.join(VERIF, "selftest", "mutants.json")))
    props = argv[argv.index("--prop") + 1].split(",") if "--prop" in argv else None
    only = argv[argv.index("--only") + 1] if "--only" in argv else None
    jobs = int(argv[argv.index("--jobs") + 1]) if "--jobs" in argv else 8
    sel = []
    for m in muts:
        ps = m["property"] if isinstance(m["property"], list) else [m["property"]]
        if props and not (set(ps) & set(props)):
            continue
        if only and m["id"] != only and not (only.endswith("-") and m["id"].startswith(only)):
            continue
        sel.append(m)
    from rules import facts as F
    F.ensure_driver()
    with multiprocessing.Pool(jobs) as pool:
        res = pool.map(run_one, sel)
    bad = 0
    for r in res:
        line = "%-8s %-46s %5.1fs" % (r["status"], r["id"], r.get("s", 0))
        if r["status"] == "FIRED":
            line += "  " + r["hit"][0]
        elif r["status"] == "MISSED":
            bad += 1
            line += "  expected *%s*; fired: %s" % (r["expect"], r["fired"])
        else:
            line += "  " + r.get("why", "")[:200]
            if r["status"] == "NOBUILD":
                bad += 1
        print(line)
    print("selftest: %d mutants, %d fired, %d skipped, %d missed/unbuildable" % (len(res), sum(r["status"] == "FIRED" for r in res), sum(r["status"] == "SKIPPED" for r in res), bad))
    if "--json" in argv:
        json.dump(res, open(argv[argv.index("--json") + 1], "w"), indent=1)
    return 1 if bad else 0


if __name__ == "__main__":
    sys.exit(main(sys.argv[1:]))
