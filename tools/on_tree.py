#!/usr/bin/env python3
"""Run checks against a scratch worktree of /repo (a commit and/or a patch), then remove it.

  tools/on_tree.py [--commit REV] [--patch FILE]... -- C13 C10 ...

Prints each check's output; exit code 0 if every check exited 0, 1 if some check reported a violation.
The evidence files of /verif are NOT touched (VERIF_EVIDENCE_DIR points into the scratch dir)."""
import os, shutil, subprocess, sys, tempfile

VERIF = os.path.dirname(os.path.dirname(os.path.abspath(__file__)))


def main(argv):
    commit = "HEAD"
    patches = []
    checks = []
    i = 0
    while i < len(argv):
        if argv[i] == "--commit":
            commit = argv[i + 1]; i += 2
        elif argv[i] == "--patch":
            patches.append(os.path.abspath(argv[i + 1])); i += 2
        elif argv[i] == "--":
            checks = argv[i + 1:]; break
        else:
            checks.append(argv[i]); i += 1
    tmp = tempfile.mkdtemp(prefix="rce-wt-")
    wt = os.path.join(tmp, "repo")
    rc = 0
    try:
        subprocess.run(["git", "-C", "/repo", "worktree", "add", "--detach", "-q", wt, commit], check=True)
        for p in patches:
            subprocess.run(["git", "-C", wt, "apply", p], check=True)
        env = dict(os.environ, VERIF_REPO=wt, VERIF_EVIDENCE_DIR=os.path.join(tmp, "evidence"))
        for c in checks:
            r = subprocess.run([os.path.join(VERIF, "check"), c], env=env, cwd=VERIF)
            if r.returncode != 0:
                rc = max(rc, r.returncode)
    finally:
        subprocess.run(["git", "-C", "/repo", "worktree", "remove", "--force", wt])
        shutil.rmtree(tmp, ignore_errors=True)
    return rc


if __name__ == "__main__":
    sys.exit(main(sys.argv[1:]))
