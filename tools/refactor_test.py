#!/usr/bin/env python3
"""False-alarm test: apply each behaviour-preserving refactoring of selftest/refactors/*.diff to a scratch copy of the
current tree and require EVERY property's rules to stay silent.

  tools/refactor_test.py [--jobs N] [--only NAME] [--dir DIR] [--release]   (--release: both build configurations)"""
import glob, importlib, multiprocessing, os, shutil, subprocess, sys, tempfile, time

VERIF = os.path.dirname(os.path.dirname(os.path.abspath(__file__)))
sys.path.insert(0, VERIF)
sys.path.insert(0, os.path.join(VERIF, "tools"))
from selftest import copy_tree  # noqa

PROPS = ["C%02d" % i for i in range(1, 18)]
RELEASE = "--release" in sys.argv


def run_one(path):
    from rules import facts as F, mir, engine
    t0 = time.time()
    tmp = tempfile.mkdtemp(prefix="rce-refactor-")
    try:
        wt = os.path.join(tmp, "repo")
        copy_tree(wt)
        r = subprocess.run(["git", "apply", "--unsafe-paths", "--directory", wt, path], capture_output=True, text=True, cwd=tmp)
        if r.returncode != 0:
            r = subprocess.run(["patch", "-p1", "-s", "-d", wt, "-i", path], capture_output=True, text=True)
            if r.returncode != 0:
                return dict(name=os.path.basename(path), status="SKIPPED", why="does not apply: " + (r.stderr or r.stdout)[-200:], s=0)
        alarms = []
        for release in ((False, True) if RELEASE else (False,)):
            try:
                facts, meta = F.load(repo=wt, use_cache=False, release=release)
            except F.BuildError as e:
                return dict(name=os.path.basename(path), status="NOBUILD", why=str(e)[-300:], s=time.time() - t0)
            ix = mir.Index(facts)
            cfg = "release" if release else "dev"
            for prop in PROPS:
                mod = importlib.import_module("rules." + prop.lower())
                ctx = engine.run_rules(prop, mod.RULES, ix, cfg)
                alarms += [(i.key + ("@release" if release else ""), i.what[:160]) for i in ctx.insts if not i.ok and not i.note]
            try:
                os.remove(meta["facts_file"])
            except OSError:
                pass
        exp = ", ".join("%s->%s x%d" % (e["helper"].split("::")[-1], e["into"].split("::")[-1], e["sites"]) for e in meta.get("helpers_expanded", []))
        return dict(name=os.path.basename(path), status="SILENT" if not alarms else "ALARM", alarms=alarms, s=round(time.time() - t0, 1),
                    why=("expanded: " + exp) if exp else "")
    finally:
        shutil.rmtree(tmp, ignore_errors=True)


def main(argv):
    d = argv[argv.index("--dir") + 1] if "--dir" in argv else os.path.join(VERIF, "selftest", "refactors")
    only = argv[argv.index("--only") + 1] if "--only" in argv else None
    jobs = int(argv[argv.index("--jobs") + 1]) if "--jobs" in argv else 6
    files = sorted(glob.glob(os.path.join(d, "*.diff")))
    if only:
        files = [f for f in files if only in os.path.basename(f)]
    from rules import facts as F
    F.ensure_driver()
    with multiprocessing.Pool(jobs) as pool:
        res = pool.map(run_one, files)
    bad = 0
    for r in res:
        print("%-8s %-50s %5.1fs %s" % (r["status"], r["name"], r.get("s", 0), r.get("why", "")))
        for k, w in r.get("alarms", []):
            bad += 1
            print("      FALSE ALARM %s\n          %s" % (k, w))
    print("refactor test: %d refactorings, %d silent, %d false alarm(s)" % (len(res), sum(r["status"] == "SILENT" for r in res), bad))
    return 1 if bad else 0


if __name__ == "__main__":
    sys.exit(main(sys.argv[1:]))
