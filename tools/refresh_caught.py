#!/usr/bin/env python3
"""Re-run one property's rules on a filed seeded change and record the keys that fire in its meta.json (used after a rule
was added because the change was first missed).   tools/refresh_caught.py NAME PROP [PROP..]"""
import importlib, json, os, shutil, subprocess, sys, tempfile
VERIF = os.path.dirname(os.path.dirname(os.path.abspath(__file__)))
sys.path.insert(0, VERIF)
sys.path.insert(0, os.path.join(VERIF, "tools"))
from selftest import copy_tree  # noqa


def main(argv):
    from rules import facts as F, mir, engine
    name, props = argv[0], argv[1:]
    d = os.path.join(VERIF, "seeded", name)
    meta = json.load(open(os.path.join(d, "meta.json")))
    tmp = tempfile.mkdtemp(prefix="rce-refresh-")
    try:
        wt = os.path.join(tmp, "repo")
        copy_tree(wt)
        r = subprocess.run(["git", "apply", "--unsafe-paths", "--directory", wt, os.path.join(d, "patch.diff")], capture_output=True, text=True, cwd=tmp)
        if r.returncode != 0:
            print("does not apply", r.stderr)
            return 1
        facts, m = F.load(repo=wt, use_cache=False, release=(meta.get("config") == "release"))
        ix = mir.Index(facts)
        for prop in props:
            mod = importlib.import_module("rules." + prop.lower())
            ctx = engine.run_rules(prop, mod.RULES, ix, meta.get("config") or "dev")
            keys = [i.key for i in ctx.insts if not i.ok and not i.note]
            if not isinstance(meta.get("caught_by"), dict):
                meta["caught_by"] = {}
            meta["caught_by"][prop] = keys
            print(name, prop, len(keys), keys[:4])
        try:
            os.remove(m["facts_file"])
        except OSError:
            pass
        json.dump(meta, open(os.path.join(d, "meta.json"), "w"), indent=1)
    finally:
        shutil.rmtree(tmp, ignore_errors=True)
    return 0


if __name__ == "__main__":
    sys.exit(main(sys.argv[1:]))
