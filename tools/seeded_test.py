#!/usr/bin/env python3
"""Regression test over the independently seeded changes of /verif/seeded/*/patch.diff: each must still be reported by
the check(s) recorded in its meta.json (`caught_by`), on a scratch copy of the current tree.

  tools/seeded_test.py [--jobs N] [--only NAME]"""
import glob, importlib, json, multiprocessing, os, shutil, subprocess, sys, tempfile, time

VERIF = os.path.dirname(os.path.dirname(os.path.abspath(__file__)))
sys.path.insert(0, VERIF)
sys.path.insert(0, os.path.join(VERIF, "tools"))
from selftest import copy_tree  # noqa


def run_one(d):
    from rules import facts as F, mir, engine
    t0 = time.time()
    name = os.path.basename(d)
    meta = json.load(open(os.path.join(d, "meta.json")))
    cb = meta.get("caught_by") or {}
    # checks recorded with an empty list ran but are not the owner of the broken clause (see the change's `needs_to_manifest`)
    props = sorted(k for k, v in cb.items() if v) if isinstance(cb, dict) and any(cb.values()) else sorted(cb or [meta["property"]])
    tmp = tempfile.mkdtemp(prefix="rce-seeded-")
    try:
        wt = os.path.join(tmp, "repo")
        copy_tree(wt)
        r = subprocess.run(["git", "apply", "--unsafe-paths", "--directory", wt, os.path.join(d, "patch.diff")], capture_output=True, text=True, cwd=tmp)
        if r.returncode != 0:
            return dict(name=name, status="SKIPPED", why="does not apply: " + (r.stderr or r.stdout)[-200:], s=0)
        try:
            facts, m = F.load(repo=wt, use_cache=False, release=(meta.get("config") == "release"))
        except F.BuildError as e:
            return dict(name=name, status="NOBUILD", why=str(e)[-300:], s=time.time() - t0)
        ix = mir.Index(facts)
        fired = {}
        for prop in props:
            mod = importlib.import_module("rules." + prop.lower())
            ctx = engine.run_rules(prop, mod.RULES, ix, meta.get("config") or "dev")
            fired[prop] = [i.key for i in ctx.insts if not i.ok and not i.note]
        try:
            os.remove(m["facts_file"])
        except OSError:
            pass
        own = meta["property"]
        ok = bool(fired.get(own)) if own in fired else any(fired.values())
        return dict(name=name, status="CAUGHT" if ok else "MISSED", fired=fired, s=round(time.time() - t0, 1))
    finally:
        shutil.rmtree(tmp, ignore_errors=True)


def main(argv):
    only = argv[argv.index("--only") + 1] if "--only" in argv else None
    jobs = int(argv[argv.index("--jobs") + 1]) if "--jobs" in argv else 8
    dirs = sorted(d for d in glob.glob(os.path.join(VERIF, "seeded", "*")) if os.path.exists(os.path.join(d, "patch.diff")))
    if only:
        dirs = [d for d in dirs if only in os.path.basename(d)]
    from rules import facts as F
    F.ensure_driver()
    with multiprocessing.Pool(jobs) as pool:
        res = pool.map(run_one, dirs)
    bad = 0
    for r in res:
        print("%-8s %-55s %5.1fs %s" % (r["status"], r["name"], r.get("s", 0), r.get("why", "")))
        for p, ks in (r.get("fired") or {}).items():
            print("      %s: %s" % (p, ", ".join(k.split(":", 1)[1] for k in ks[:4]) + (" ..." if len(ks) > 4 else "")))
        if r["status"] != "CAUGHT":
            bad += 1
    print("seeded test: %d changes, %d caught, %d not caught" % (len(res), len(res) - bad, bad))
    return 1 if bad else 0


if __name__ == "__main__":
    sys.exit(main(sys.argv[1:]))
