#!/usr/bin/env python3
"""Regenerate rules/known_closures.json from /repo's current tree (both build configurations).

Run only when the reference tree is re-confirmed by hand: the table says which closures the rules already know as written."""
import json, os, sys
VERIF = os.path.dirname(os.path.dirname(os.path.abspath(__file__)))
sys.path.insert(0, VERIF)
from rules import facts as F, expand, pipeline, unroll, specialise  # noqa

out = {"closures": {}, "plain": {}, "pipelines": {}, "array_loops": {}, "merged_tuples": {}}
for release in (False, True):
    F.ensure_driver()
    import tempfile, shutil
    tmp = tempfile.mkdtemp(prefix="rce-freeze-")
    try:
        p = os.path.join(tmp, "facts.json")
        F.run_driver(F.REPO, p, release=release)
        raw = json.load(open(p))
        t = expand.reference_tables(raw)
        rb = {j["key"]: j for j in raw["bodies"]}
        for j in raw["bodies"]:
            if j["kind"] in ("fn", "closure"):
                n = unroll.count_loops(j, rb)
                if n:
                    out["array_loops"][j["key"]] = max(n, out["array_loops"].get(j["key"], 0))
                m = specialise.count(j)
                if m:
                    out["merged_tuples"][j["key"]] = max(m, out["merged_tuples"].get(j["key"], 0))
        for k, v in pipeline.reference_pipelines(raw).items():
            for c, n in v.items():
                out["pipelines"].setdefault(k, {})[c] = max(n, out["pipelines"].get(k, {}).get(c, 0))
    finally:
        shutil.rmtree(tmp, ignore_errors=True)
    for k, v in t["closures"].items():
        out["closures"][k] = sorted(set(out["closures"].get(k, [])) | set(v))
    for k, v in t["plain"].items():
        for c, n in v.items():
            out["plain"].setdefault(k, {})[c] = max(n, out["plain"].get(k, {}).get(c, 0))
json.dump(out, open(expand.KNOWN, "w"), indent=0, sort_keys=True)
print("closures of %d functions frozen" % len(out["closures"]))
