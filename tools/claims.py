"""What MANIFEST.json claims per property (regenerate with tools/gen_manifest.py)."""
CHECKS = {}
NOT_APPLICABLE = {}
NOTES = ("Static analysis only: every verdict is computed from /repo's current source as type-checked by rustc "
         "(MIR facts from a rustc_private driver); no engine code is executed by any registered check. "
         "See DESIGN.md; known_findings.jsonl lists repaired defects (fixed:) and any recorded findings.")

STATIC_NOTE = ("Trusted base: rustc nightly MIR construction and callee resolution, the mirfacts driver, the rule engine. "
               "The check decides the structural clauses named in the evidence explanation, for all inputs/paths at once, and re-decides "
               "the clauses of other properties that this one rests on (instances keyed uses-<ID>.<rule>; graph in DESIGN.md 6.8); ")


def claim(pid, category, text, note, technique, design_ref):
    CHECKS[pid] = dict(category=category, text=text, note=STATIC_NOTE + note, technique=technique, design_ref=design_ref)


claim("C13", "proof",
      "Must-pass-through proof on the MIR CFG: no path from the return of an abortable search call to a write of the process-wide cache avoids re-testing both abort predicates; aborted nodes return before any effect; every stop condition is sticky or monotone; no other writer of persistent state. Covers every position and every cut point at once, which no run can.",
      "assumes the clock is monotone and SearchLimits is constant during a search (checked); the ply-counter overflow clause is outside the statement (note).",
      "static analysis: CFG must-pass-through + who-may-write over rustc MIR", "DESIGN.md section 3 C13")


claim("C10", "other",
      "Reduces the all-interleavings property to order/ownership facts that hold on every schedule: no store of true into the shared flag reachable from the spawned closure (created true), publication dominates spawn and concerns the same Search, the Stop arm always clears a published flag, the Go arm skips the spawn only on a path control-dependent on the flag still being set while the search clears the flag before printing bestmove, no parsed command is dropped silently, the flag is polled at every node. A scheduler-independent argument, which no finite set of forced schedules gives.",
      "assumes single-location coherence of Relaxed atomics and a GUI that sends go after bestmove; promptness in wall-clock terms is not decided.",
      "static analysis: who-may-write + dominance/must-pass-through over rustc MIR", "DESIGN.md section 3 C10")

claim("C15", "other",
      "Panic-site audit and exit analysis of the whole input-handling layer: every bounds check / range index is entailed by still-valid dominating length tests (difference constraints, reassignment kills a fact), every arithmetic assert discharged, explicit panics / unwrap / may-panic std calls are violations unless proved dead, boundary calls are a confirmed table, the loop exits on end of input, read error and Quit, never blocks, logs and continues on errors. Quantifies over all input lines because it quantifies over all paths.",
      "assumes valid FEN arguments (statement), open stdout, and that std functions outside the listed may-panic set do not panic; board-layer panics on chess-illegal FENs are out of scope.",
      "static analysis: panic-site enumeration + difference-constraint bounds discharge + CFG exit analysis over rustc MIR", "DESIGN.md section 3 C15")


claim("C09", "other",
      "Path rules on the search thread's spine: exactly one bestmove emission on every path (iter_deep outside the loop; search() -> iter_deep once; thread closure -> search() once; one spawn), no undischarged panic site on the spine before the emission, abort test dominating every recursive call and repeated after every child, a non-blocking Go arm, the depth limit bounding iterations only, and the printed move drawn from legality-checked sources. Holds for every position x limit combination because it holds for every path.",
      "wall-clock adherence and panic-freedom of the tree walk beyond the spine are not decided (notes in the evidence).",
      "static analysis: path counting / post-dominance + panic-site audit over rustc MIR", "DESIGN.md section 3 C09")

claim("C14", "other",
      "Structural clauses of the progress reports: the depth limit only bounds the iteration range and is never compared with the ply counter; one info line per iteration with the loop variable, guarded by both abort tests, after that iteration's search; PV moves pass is_legal_move on the position they are played in and the scratch board is restored; score and move are written together.",
      "printed moves (Display of Ply = to_notation, square names for all 64 squares, promotion letters) and every shape of the info line (all combinations of optional parts, against the UCI grammar) are decided by per-case constant propagation; mate-distance arithmetic is not decided. Rests on, and re-decides, the legality filter (C01.filter/probe).",
      "static analysis: dataflow of the depth limit + dominance / must-pass-through over rustc MIR", "DESIGN.md section 3 C14")


claim("C02", "other",
      "Field-by-field inverse argument over the MIR of make_move / unmake_move and their callees: equal write sets, history as a strict stack, multiplicity-faithful containers, counter and en-passant file restored under matching predicates from the matching record, undo_move_piece the case-by-case reverse of move_piece with identical arguments, a make-then-unmake legality probe on every path, and no interior mutability in Board. Holds for all positions, moves and nesting depths because it is an argument about the code, not about sampled states.",
      "assumes generated moves (captured piece matches the board); bitboard |= / &= !mask inverse-ness for ill-formed moves is value-level and not decided.",
      "static analysis: who-may-write summaries + path enumeration + symbolic slices over rustc MIR", "DESIGN.md section 3 C02")


claim("C03", "other",
      "Decision tables read off the MIR of make_move / make_move_castling_checks / move_piece (constraints on every path to each effect, independent of arm order) compared with the rules: the castling-right revocation relation equals the FIDE table row for row and rights only ever go to Unavailable from a copied-forward record; half-move clock, en-passant file, full-move number and piece relocation (quiet, capture, en passant, castling rook) follow the rules; the record of earlier positions is multiplicity-faithful. Covers arbitrary histories because each move applies the same verified transition.",
      "assumes generated moves whose flags describe them truthfully; the generators themselves are C01/C06.",
      "static analysis: decision-table extraction from rustc MIR vs rules-of-chess oracle", "DESIGN.md section 3 C03")

claim("C04", "other",
      "Inductive invariant key == from-scratch key: type-resolved who-may-write over the hashed components (a write from anywhere else in the crate is a violation), and for every allowed writer a control-equivalence pairing of each component write with the toggle of the matching table word and arguments (pieces, side, en-passant out/in, 12 guarded castling revocations, 4 guarded reverts), constructors computing the key last, and identical table fields / index maps in the from-scratch function and the mutators. Path independence over all histories follows by induction.",
      "assumes XOR-toggle semantics and generated moves; FEN equality additionally needs C07.",
      "static analysis: who-may-write + control-equivalence pairing + symbolic index-map comparison over rustc MIR", "DESIGN.md section 3 C04")


claim("C17", "proof",
      "Every Evaluator::evaluate implementation is summarised from MIR as contributions (kind, side, coefficient, sign); the obligations (added table == subtracted table as multisets; added terms on current_turn, subtracted on current_turn.opposite(); Color::opposite an involution; accumulator starts at 0 with no other update and no other board read; get_piece_count uses the same (kind, colour) -> bitboard bijection as add_piece/remove_piece) give eval(p) = sum_K v_K (n(K,mover) - n(K,opponent)), hence both symmetries for all positions.",
      "assumes no i16 saturation (legal material <= 10300); that the bitboards hold the real position under make/unmake is re-decided here (C03 revocation/placement and C02 inverse rules, reported as C17:uses-<ID>.<rule>).",
      "static analysis: symbolic summarisation of the evaluator + table equality over rustc MIR", "DESIGN.md section 3 C17")


claim("C16", "other",
      "Absence of nondeterminism sources on the whole call graph rooted at Search::search and bench::bench: resolved-callee deny-list (clock, OS randomness, RandomState, env, threads, files, pointer-to-integer casts) with the confirmed instances frozen by (caller, callee) and confined to the info line or to comparisons against SearchLimits fields; only order-independent methods on hash containers and an identity-hashed cache; constant Zobrist seed and source-free OnceLock initialisers; no mutable statics but the cache, no thread-locals, no shared cells but the running flag; fresh Info per search; cache empty at start and cleared between bench positions; cache untouched by the input thread. What a repeated-run test can only sample, this excludes for every schedule and load.",
      "assumes std functions outside the deny-list are deterministic and codegen is deterministic.",
      "static analysis: call-graph effect scan (deny-list of resolved callees) + who-may-access statics over rustc MIR", "DESIGN.md section 3 C16")


claim("C11", "other",
      "Structural features that make alpha-beta / PVS / ordering value-preserving and that the statement uses to define the reference game: the move orderer is a permutation of its input and ordering data reach only score comparisons; recursive calls use (-beta,-alpha) or (-alpha-1,-alpha) at depth-1 with negated results and re-search iff alpha < score < beta; cut-offs fire exactly on score >= beta; alpha rises only from a better score; mate/stalemate/fifty-move/repetition/check-extension/capture-only quiescence with stand-pat are as stated. Equality with the minimax value itself is value-level and not decided.",
      "shape rules for fail-hard negamax with PVS; a differently formulated but equivalent search is reported as cannot-decide.",
      "static analysis: symbolic slices of call arguments + decision-table extraction + index-arithmetic invariant over rustc MIR", "DESIGN.md section 3 C11")

claim("C12", "other",
      "Necessary bound discipline of the cache behind mate finding with caching on: an entry is used only on the edge where entry.depth >= remaining depth; Exact returned, Lower only raises alpha, Upper only lowers beta; stores carry (cutting score, Lower, cutting move) / (alpha, Upper iff not raised else Exact) / (alpha, Exact) at the root, keyed by the searched position; mate = MIN + ply, stalemate 0; only the three search sites write the cache. Whether mates are actually found is value-level and not decided.",
      "relies on C13 (no aborted values stored) and C04/C05 (keys identify positions).",
      "static analysis: decision-table extraction of the probe / store sites over rustc MIR", "DESIGN.md section 3 C12")


claim("C05", "other",
      "Decides the necessary structural clause the property's rationale singles out (a component that is not hashed at all, or that shares a word): the from-scratch key XORs one word for every component over all 64 squares, 4 rights, the en-passant file and the side to move; each mutator's index depends on every parameter; index maps are injective onto the table dimensions; every table element and white_turn gets its own fresh draw from one constant-seeded generator; four components use four tables. Actual distinctness of the drawn 64-bit words (XOR collisions among explored positions) is a property of the generator output and is NOT decided.",
      "assumes distinct generator draws are distinct words and do not XOR-cancel.",
      "static analysis: index-dependence slices + injectivity of conversion tables + initialisation coverage over rustc MIR", "DESIGN.md section 3 C05")

claim("C06", "other",
      "Magic constants validated completely against an independent geometric oracle (all 128 entries, all 107,648 blocker subsets: index width, row bound, no destructive collision), plus structural rules tying them to the code: reader and writer compute the same index over the same tables, masks drop exactly the far edge, the slow ray walk blocks each direction with the right scan, leaper initialisers normalise to exactly the rule steps with exactly the wrapping files masked, queen = rook | bishop, Kind dispatch and all_pieces occupancy. Exhaustive over squares and occupancies for the table scheme, which sampled slider tests cannot be.",
      "the ray table and the leaper tables are folded from their initialiser expressions for all 64 squares and compared with the oracle; get_blockers_from_index is decided structurally (subset-enum).",
      "static analysis: constants extracted from the type-checked program vs geometric oracle + symbolic normalisation of initialiser expressions", "DESIGN.md section 3 C06")


claim("C07", "other",
      "Tables extracted from the MIR of the FEN reader and the builders compared with the FEN standard and with each other: the 12 piece letters, one (kind, colour) <-> bitboard bijection across setters / add / remove / count / lookup / build / recompute and both hard-coded start positions, the order and defaults of the six FEN fields, the castling and side letters, the en-passant letter decoding, the synthetic history record (rights, clock, double-push flag on the en-passant file, which is what make/unmake read back), and a build that copies every field and computes the key last. These decide every table a FEN family would have to probe.",
      "the rank/file arithmetic of the placement mask and digit skipping are value-level and not decided.",
      "static analysis: decision-table extraction from rustc MIR vs FEN-standard oracle; sibling-table agreement", "DESIGN.md section 3 C07")


claim("C08", "other",
      "Structural clauses of `position`: a scratch board built from the start position or from_fen and never from the session board; a single commit `self.board = scratch` after the move loop, on every Ok path and no Err path, with a rejected move leading to an Err that bypasses it; exact-equality lookup of each token among the legal moves and the matched move played on the scratch board for all tokens in order; {start}{dest}+q/r/b/n notation; FEN = tokens 1..7, moves after the `moves` keyword; error propagation, ucinewgame, and go searching the session board. Holds for every move list and command order because it holds for every path.",
      "the clauses it rests on are re-decided here and reported as C08:uses-<ID>.<rule>: the FEN loader (C07 rules), the legality filter (C01.filter/probe) and the move application (C03 rules).",
      "static analysis: who-may-write + dominance + symbolic slices + token-slice constraints over rustc MIR", "DESIGN.md section 3 C08")


claim("C01", "other",
      "FIDE-exactness of the generated set for all positions is value-level and NOT decided. Decided are the structural clauses behind the rare-combination failures the property names: retain-by-is_legal_move filter; the probe testing the mover's king between make and unmake; check/attacker mirror tables; castling = rights && empty path && unattacked path for the same kind, refused on the wrong turn; the eight castling masks equal the FIDE squares (b1/b8 may be attacked) with Black = White << 56; the four castling moves and both rook tables; pawn direction/rank table with its mirror, double push, two guarded en-passant captures, four promotions on the back rank; Kind dispatch; capture annotation; full 0..64 square loops.",
      "pseudo-legal set exactness, pins/evasions by value, duplicates and mate/stalemate recognition are not decided. The check also re-decides what these clauses rest on: the attack tables (C06 rules), make/unmake restoring the position around the probe (C02 rules) and the bookkeeping later generation depends on (C03 rules), reported as C01:uses-<ID>.<rule>.",
      "static analysis: decision-table extraction + constants vs FIDE oracle + dominance over rustc MIR", "DESIGN.md section 3 C01")
