"""What MANIFEST.json claims per property (regenerate with tools/gen_manifest.py)."""
CHECKS = {}
NOT_APPLICABLE = {}
NOTES = ("Static analysis only: every verdict is computed from /repo's current source as type-checked by rustc "
         "(MIR facts from a rustc_private driver); no engine code is executed by any registered check. "
         "See DESIGN.md; known_findings.jsonl lists repaired defects (fixed:) and any recorded findings.")

STATIC_NOTE = ("Trusted base: rustc nightly MIR construction and callee resolution, the mirfacts driver, the rule engine. "
               "The check decides the structural clauses named in the evidence explanation, for all inputs/paths at once; ")


def claim(pid, category, text, note, technique, design_ref):
    CHECKS[pid] = dict(category=category, text=text, note=STATIC_NOTE + note, technique=technique, design_ref=design_ref)


claim("C13", "proof",
      "Must-pass-through proof on the MIR CFG: no path from the return of an abortable search call to a write of the process-wide cache avoids re-testing both abort predicates; aborted nodes return before any effect; every stop condition is sticky or monotone; no other writer of persistent state. Covers every position and every cut point at once, which no run can.",
      "assumes the clock is monotone and SearchLimits is constant during a search (checked); the ply-counter overflow clause is outside the statement (note).",
      "static analysis: CFG must-pass-through + who-may-write over rustc MIR", "DESIGN.md section 3 C13")
